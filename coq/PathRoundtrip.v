(* PathRoundtrip.v — printing a JSONPath and parsing the printout gives the same AST (C09), for every path in the
   executable class PathSafe.safe_path. *)
From Coq Require Import List NArith ZArith Bool Lia.
Import ListNotations.
From JB Require Import Constants Bytes Utf8 Num Value Decimal JsonText TreeOps Render Path PathInd PathParse TextRoundtrip KeyPathRoundtrip PathSafe.
Open Scope N_scope.
Set Default Timeout 120.

(* ---------------------------------------------------------------- whitespace *)
Lemma ms_head c r : is_space c = false -> multispace0 (c :: r) = c :: r.
Proof. intros H. cbn [multispace0]. rewrite H. reflexivity. Qed.
Lemma ms_idem x : multispace0 (multispace0 x) = multispace0 x.
Proof.
  induction x as [|c r IH]; [reflexivity|]. cbn [multispace0]. destruct (is_space c) eqn:E; [exact IH|].
  cbn [multispace0]. rewrite E. reflexivity.
Qed.
Lemma ms_len x : (length (multispace0 x) <= length x)%nat.
Proof. induction x as [|c r IH]; [cbn; lia|]. cbn [multispace0]. destruct (is_space c); cbn [length]; lia. Qed.
Lemma ms_app_head c r x : is_space c = false -> multispace0 ((c :: r) ++ x) = (c :: r) ++ x.
Proof. intros H. cbn [app]. apply ms_head. exact H. Qed.

(* first-byte tests on what follows a printed fragment; the empty rest always passes *)
Definition hd_in (l : list N) (rest : list N) : bool :=
  match rest with [] => true | c :: _ => existsb (N.eqb c) l end.
Definition hd_notin (l : list N) (rest : list N) : bool :=
  match rest with [] => true | c :: _ => negb (existsb (N.eqb c) l) end.

Lemma existsb_eqb_in c l : existsb (N.eqb c) l = true -> In c l.
Proof. intros H. apply existsb_exists in H. destruct H as (x & Hx & E). apply N.eqb_eq in E. subst x. exact Hx. Qed.
Lemma existsb_eqb_notin c l x : existsb (N.eqb c) l = false -> In x l -> (c =? x) = false.
Proof.
  intros H Hx. destruct (c =? x) eqn:E; [|reflexivity]. apply N.eqb_eq in E. subst x.
  assert (existsb (N.eqb c) l = true) by (apply existsb_exists; exists c; split; [exact Hx|apply N.eqb_refl]). congruence.
Qed.

(* ---------------------------------------------------------------- names *)
Definition name_follow (rest : list N) : bool := match rest with [] => true | c :: _ => is_delim c end.

Lemma forallb_plain stopf s : forallb (plain_byteb stopf) s = true -> Forall (plain_byte stopf) s.
Proof.
  intros H. apply Forall_forall. intros b Hb. rewrite forallb_forall in H. specialize (H b Hb).
  unfold plain_byteb in H. apply andb_true_iff in H. destruct H as [H1 H2].
  split; [apply negb_true_iff in H1; exact H1|]. apply negb_true_iff in H2. apply N.eqb_neq in H2. exact H2.
Qed.
Lemma safe_nameb_spec s : safe_nameb s = true -> s <> [] /\ Forall (plain_byte is_delim) s /\ utf8_valid s = true.
Proof.
  unfold safe_nameb. intros H. apply andb_true_iff in H. destruct H as [H H3]. apply andb_true_iff in H. destruct H as [H1 H2].
  split; [intros ->; discriminate H1|]. split; [apply forallb_plain; exact H2|exact H3].
Qed.
Lemma safe_quotedb_spec s : safe_quotedb s = true -> safe_quoted s.
Proof.
  unfold safe_quotedb. intros H. apply andb_true_iff in H. destruct H as [H1 H2]. split; [apply forallb_plain; exact H1|exact H2].
Qed.

Lemma scan_name_plain_end stopf s : Forall (plain_byte stopf) s -> forall fuel acc esc, (length s < fuel)%nat ->
  scan_name fuel stopf s acc esc = Some (rev acc ++ s, esc, [], false).
Proof.
  induction 1 as [|b s [Hb1 Hb2] _ IH]; intros fuel acc esc Hf; (destruct fuel as [|fuel]; [cbn [length] in Hf; lia|]); cbn [scan_name].
  - rewrite app_nil_r. reflexivity.
  - apply N.eqb_neq in Hb2. rewrite Hb2, Hb1. rewrite IH by (cbn [length] in Hf; lia). cbn [rev]. rewrite <- app_assoc. reflexivity.
Qed.

Lemma delim_not_bs c : is_delim c = true -> c <> 92.
Proof. intros H ->. discriminate H. Qed.

Lemma raw_string_rt s rest : safe_nameb s = true -> name_follow rest = true -> raw_string (s ++ rest) = POk rest s.
Proof.
  intros Hs Hr. destruct (safe_nameb_spec s Hs) as (Hne & Hp & Hu). unfold raw_string.
  destruct rest as [|c r].
  - rewrite app_nil_r. rewrite (scan_name_plain_end _ s Hp) by lia. cbn [rev app].
    destruct s as [|b s]; [contradiction Hne; reflexivity|]. rewrite Hu. reflexivity.
  - cbn [name_follow] in Hr.
    rewrite (scan_name_plain _ s Hp) by (try (rewrite app_length; cbn [length]; lia); try assumption; apply delim_not_bs; assumption).
    cbn [rev app]. destruct s as [|b s]; [contradiction Hne; reflexivity|]. rewrite Hu. reflexivity.
Qed.

Lemma pstring_not_quote b r : (b =? 34) = false -> pstring (b :: r) = PErr.
Proof.
  intros E. unfold pstring. destruct b as [|p]; [reflexivity|].
  do 7 (try (destruct p as [p|p|]; try reflexivity)); discriminate E.
Qed.

(* the first byte of a plain name *)
Lemma name_first s : safe_nameb s = true -> exists b r, s = b :: r /\ is_delim b = false /\ b <> 92.
Proof.
  intros Hs. destruct (safe_nameb_spec s Hs) as (Hne & Hp & _). destruct s as [|b r]; [contradiction Hne; reflexivity|].
  exists b, r. split; [reflexivity|]. inversion Hp as [|? ? [H1 H2] _]. subst. split; assumption.
Qed.
Lemma not_delim_neq b x : is_delim b = false -> In x RAW_STRING_DELIMS -> (b =? x) = false.
Proof. intros H Hx. apply (existsb_eqb_notin b RAW_STRING_DELIMS x H Hx). Qed.
Ltac delim_in := unfold RAW_STRING_DELIMS; cbn [In]; tauto.

(* ---------------------------------------------------------------- integers *)
Lemma pu64_rt u rest : u < two64 -> no_digit_next rest -> pu64 (dec_digits u ++ rest) = POk rest (Z.of_N u).
Proof.
  intros Hu Hr. unfold pu64. destruct (dec_digits_spec _ Hu) as (Hd & Hv & _ & _).
  destruct (dec_digits_cons _ Hu) as (d & r & Ed & _).
  rewrite (int_digits_pos 0 (Z.of_N two64 - 1) _ rest Hd Hr ltac:(lia) 0%Z false ltac:(lia)).
  - rewrite Hv. reflexivity.
  - rewrite Hv. unfold two64 in *. lia.
  - left. rewrite Ed. discriminate.
Qed.
Lemma pint_roundtrip lo hi i rest : (lo <= 0 <= hi)%Z -> (- Z.of_N two64 < lo)%Z -> (hi < Z.of_N two64)%Z ->
  (lo <= i <= hi)%Z -> no_digit_next rest -> pint lo hi (dec_Z i ++ rest) = POk rest i.
Proof.
  intros H0 Hlo Hhi Hi Hr. unfold pint, dec_Z.
  destruct (i <? 0)%Z eqn:E; [apply Z.ltb_lt in E|apply Z.ltb_ge in E].
  - cbn [app]. change (45 =? 43) with false. change (45 =? 45) with true. cbv iota.
    assert (Hn : Z.to_N (- i) < two64) by lia.
    destruct (dec_digits_spec _ Hn) as (Hd & Hv & _ & Hp).
    rewrite (int_digits_neg lo hi _ rest Hd Hr ltac:(lia) 0%Z false ltac:(lia)).
    + f_equal. change 0%Z with (- 0)%Z at 1. rewrite ndigits_val_neg, Hv. lia.
    + change 0%Z with (- 0)%Z. rewrite ndigits_val_neg, Hv. lia.
    + left. destruct Hp as (d & r & -> & _); [lia|discriminate].
  - assert (Hn : Z.to_N i < two64) by lia.
    destruct (dec_digits_spec _ Hn) as (Hd & Hv & _ & _).
    destruct (dec_digits_cons _ Hn) as (d & r & Ed & Hdd). destruct (digit_not_sign d Hdd) as [S1 S2].
    rewrite Ed in *. cbn [app]. rewrite S1, S2.
    change (d :: r ++ rest) with ((d :: r) ++ rest).
    rewrite (int_digits_pos lo hi _ rest Hd Hr ltac:(lia) 0%Z false ltac:(lia)).
    + f_equal. rewrite Hv. lia.
    + rewrite Hv. lia.
    + left. discriminate.
Qed.
Lemma pi64_rt z rest : (- two63 <= z < two63)%Z -> no_digit_next rest -> pi64 (dec_Z z ++ rest) = POk rest z.
Proof. intros Hz Hr. unfold pi64. apply pint_roundtrip; try assumption; unfold two63, two64 in *; lia. Qed.
Lemma digit_not_space d : is_digit d = true -> is_space d = false.
Proof.
  unfold is_digit. intros H. apply andb_true_iff in H. destruct H as [H1 _]. apply N.leb_le in H1.
  unfold is_space. repeat (apply orb_false_iff; split); apply N.eqb_neq; lia.
Qed.
Lemma dec_digits_head u : u < two64 -> exists d r, dec_digits u = d :: r /\ is_digit d = true /\ is_space d = false.
Proof. intros Hu. destruct (dec_digits_cons u Hu) as (d & r & E & Hd). exists d, r. split; [exact E|]. split; [exact Hd|apply digit_not_space; exact Hd]. Qed.
Lemma dec_Z_head z : (- two63 <= z < Z.of_N two64)%Z -> exists d r, dec_Z z = d :: r /\ (is_digit d = true \/ d = 45) /\ is_space d = false.
Proof.
  intros Hz. unfold dec_Z. destruct (z <? 0)%Z eqn:E.
  - eexists; eexists. split; [reflexivity|]. split; [right; reflexivity|reflexivity].
  - apply Z.ltb_ge in E. assert (Hu : Z.to_N z < two64) by lia.
    destruct (dec_digits_head _ Hu) as (d & r & -> & H1 & H2). exists d, r. split; [reflexivity|]. split; [left; exact H1|exact H2].
Qed.

(* ---------------------------------------------------------------- indices *)
Definition idx_follow (rest : list N) : bool :=
  match rest with [] => true | c :: _ => negb (is_digit c) end && hd_notin [45; 43] (multispace0 rest).
Lemma idx_follow_nd rest : idx_follow rest = true -> no_digit_next rest.
Proof. unfold idx_follow. intros H. apply andb_true_iff in H. destruct H as [H _]. destruct rest as [|c r]; [exact I|]. apply negb_true_iff in H. exact H. Qed.
Lemma idx_follow_sign rest k : idx_follow rest = true -> k = 45 \/ k = 43 -> pchar k (multispace0 rest) = PErr.
Proof.
  unfold idx_follow. intros H Hk. apply andb_true_iff in H. destruct H as [_ H]. destruct (multispace0 rest) as [|c r]; [reflexivity|].
  cbn [hd_notin] in H. apply negb_true_iff in H. cbn [pchar].
  rewrite (existsb_eqb_notin c [45; 43] k H) by (cbn [In]; destruct Hk; subst; tauto). reflexivity.
Qed.

Lemma i32_safe z : ((-2147483648 <=? z) && (z <=? 2147483647))%Z = true -> (-2147483648 <= z <= 2147483647)%Z.
Proof. intros H. apply andb_true_iff in H. destruct H as [H1 H2]. apply Z.leb_le in H1. apply Z.leb_le in H2. lia. Qed.

Lemma pi32_letter r : pi32 (108 :: r) = PErr.
Proof. reflexivity. Qed.

Lemma pindex_rt i rest : safe_index i = true -> idx_follow rest = true -> pindex (show_index i ++ rest) = POk rest i.
Proof.
  intros Hi Hr. pose proof (idx_follow_nd rest Hr) as Hnd. unfold pindex. destruct i as [z|z]; cbn [show_index safe_index] in *.
  - rewrite (pi32_roundtrip z rest (i32_safe z Hi) Hnd). reflexivity.
  - apply andb_true_iff in Hi. destruct Hi as [H1 H2]. apply Z.leb_le in H1. apply Z.leb_le in H2.
    rewrite <- app_assoc. cbn [app]. rewrite pi32_letter. cbn [pmap pbind palt].
    set (tail := (if (0 <? z)%Z then 43 :: dec_Z z else if (z <? 0)%Z then dec_Z z else []) ++ rest).
    assert (T : ptag_no_case LAST (108 :: 97 :: 115 :: 116 :: tail) = POk tail tt) by reflexivity.
    rewrite T. cbn [pbind]. subst tail.
    destruct (0 <? z)%Z eqn:Ep.
    + apply Z.ltb_lt in Ep. cbn [app multispace0]. change (is_space 43) with false. cbv iota.
      cbn [pchar]. change (43 =? 45) with false. change (43 =? 43) with true. cbv iota. cbn [pbind palt].
      destruct (dec_Z_head z ltac:(unfold two63, two64; lia)) as (d & r & E & _ & Hsp).
      rewrite E. rewrite (ms_app_head d r rest Hsp). rewrite <- E.
      rewrite (pi32_roundtrip z rest ltac:(lia) Hnd). reflexivity.
    + apply Z.ltb_ge in Ep. destruct (z <? 0)%Z eqn:En.
      * unfold dec_Z. rewrite En. apply Z.ltb_lt in En. cbn [app multispace0]. change (is_space 45) with false. cbv iota.
        cbn [pchar]. change (45 =? 45) with true. cbv iota. cbn [pbind].
        assert (Hu : Z.to_N (- z) < two64) by (unfold two64; lia).
        destruct (dec_digits_head _ Hu) as (d & r & E & _ & Hsp).
        rewrite E. rewrite (ms_app_head d r rest Hsp). rewrite <- E.
        assert (D : dec_digits (Z.to_N (- z)) = dec_Z (- z)).
        { unfold dec_Z. replace (- z <? 0)%Z with false by (symmetry; apply Z.ltb_ge; lia). reflexivity. }
        rewrite D. rewrite (pi64_rt (- z)%Z rest ltac:(unfold two63; lia) Hnd). cbn [pbind palt]. unfold last_minus.
        replace (- z =? - two63)%Z with false by (symmetry; apply Z.eqb_neq; unfold two63; lia). rewrite Z.opp_involutive.
        replace ((-2147483648 <=? z) && (z <=? 2147483647))%Z with true by (symmetry; apply andb_true_iff; split; apply Z.leb_le; lia).
        reflexivity.
      * apply Z.ltb_ge in En. assert (z = 0%Z) by lia. subst z. cbn [app].
        rewrite (idx_follow_sign rest 45 Hr ltac:(tauto)). cbn [pbind palt].
        rewrite (idx_follow_sign rest 43 Hr ltac:(tauto)). cbn [pbind palt pmap]. reflexivity.
Qed.

Lemma digit_head_facts d : is_digit d = true -> is_space d = false /\ (d =? 42) = false.
Proof.
  intros H. split; [apply digit_not_space; exact H|]. unfold is_digit in H. apply andb_true_iff in H. destruct H as [H1 _].
  apply N.leb_le in H1. apply N.eqb_neq. lia.
Qed.
Lemma show_index_head i : safe_index i = true -> exists c r, show_index i = c :: r /\ is_space c = false /\ (c =? 42) = false.
Proof.
  intros Hi. destruct i as [z|z]; cbn [show_index safe_index] in *.
  - pose proof (i32_safe z Hi) as R. destruct (dec_Z_head z ltac:(unfold two63, two64; lia)) as (d & r & -> & [Hd | ->] & Hsp).
    + exists d, r. split; [reflexivity|]. apply digit_head_facts. exact Hd.
    + eexists; eexists. split; [reflexivity|split; reflexivity].
  - eexists; eexists. split; [reflexivity|split; reflexivity].
Qed.
Lemma show_aindex_head a : safe_aindex a = true -> exists c r, show_array_index a = c :: r /\ is_space c = false /\ (c =? 42) = false.
Proof.
  intros Ha. destruct a as [i|s e]; cbn [show_array_index safe_aindex] in *.
  - apply show_index_head. exact Ha.
  - apply andb_true_iff in Ha. destruct Ha as [Hs _]. destruct (show_index_head s Hs) as (c & r & -> & H).
    eexists; eexists. split; [reflexivity|exact H].
Qed.

Lemma aidx_follow rest : hd_in [44; 93] rest = true ->
  idx_follow rest = true /\ ptag_no_case [116; 111] (multispace0 rest) = PErr /\ multispace0 rest = rest.
Proof.
  destruct rest as [|c r]; [intros _; repeat split; reflexivity|]. cbn [hd_in]. intros H. apply existsb_eqb_in in H.
  destruct H as [<- | [<- | []]]; repeat split; reflexivity.
Qed.

Lemma parray_index_rt a rest : safe_aindex a = true -> hd_in [44; 93] rest = true ->
  parray_index (show_array_index a ++ rest) = POk rest a.
Proof.
  intros Ha Hr. destruct (aidx_follow rest Hr) as (Hf & Hto & Hms). unfold parray_index.
  destruct a as [i|s e]; cbn [show_array_index safe_aindex] in *.
  - rewrite (pindex_rt i rest Ha Hf). cbn [pbind]. rewrite Hto. cbn [pbind palt pmap]. reflexivity.
  - apply andb_true_iff in Ha. destruct Ha as [Hs He]. rewrite <- !app_assoc. cbn [app].
    rewrite (pindex_rt s (32 :: 116 :: 111 :: 32 :: show_index e ++ rest) Hs eq_refl). cbn [pbind].
    assert (T : ptag_no_case [116; 111] (multispace0 (32 :: 116 :: 111 :: 32 :: show_index e ++ rest))
                = POk (32 :: show_index e ++ rest) tt) by reflexivity.
    rewrite T. cbn [pbind].
    assert (M : multispace0 (32 :: show_index e ++ rest) = show_index e ++ rest).
    { destruct (show_index_head e He) as (c & r & E & Hsp & _). rewrite E. cbn [app multispace0]. change (is_space 32) with true. cbv iota.
      rewrite Hsp. reflexivity. }
    rewrite M, (pindex_rt e rest He Hf). reflexivity.
Qed.

Lemma ws_parray_index_rt a rest : safe_aindex a = true -> hd_in [44; 93] rest = true ->
  ws_around parray_index (32 :: show_array_index a ++ rest) = POk rest a
  /\ ws_around parray_index (show_array_index a ++ rest) = POk rest a.
Proof.
  intros Ha Hr. destruct (aidx_follow rest Hr) as (_ & _ & Hms). destruct (show_aindex_head a Ha) as (c & r & E & Hsp & _).
  assert (M : multispace0 (show_array_index a ++ rest) = show_array_index a ++ rest) by (rewrite E; apply ms_app_head; exact Hsp).
  unfold ws_around. cbn [multispace0]. change (is_space 32) with true. cbv iota.
  rewrite M, (parray_index_rt a rest Ha Hr). cbn [pbind]. rewrite Hms. split; reflexivity.
Qed.

Definition aidx_tail (todo : list array_index) : list N := flat_map (fun a => 44 :: 32 :: show_array_index a) todo.
Lemma aidx_tail_follow todo x : hd_in [44; 93] (aidx_tail todo ++ 93 :: x) = true.
Proof. destruct todo; reflexivity. Qed.

Lemma aidx_loop_rt tail : forall todo acc fuel, (length todo < fuel)%nat -> forallb safe_aindex todo = true ->
  sep_loop (ws_around parray_index) (pchar 44) fuel (aidx_tail todo ++ 93 :: tail) acc = POk (93 :: tail) (rev acc ++ todo).
Proof.
  induction todo as [|a r IH]; intros acc fuel Hf HF; (destruct fuel as [|fuel]; [cbn [length] in Hf; lia|]); unfold aidx_tail; cbn [flat_map app sep_loop].
  - cbn [pchar]. change (93 =? 44) with false. cbv iota. rewrite app_nil_r. reflexivity.
  - cbn [pchar]. change (44 =? 44) with true. cbv iota. rewrite length_neq_succ.
    cbn [forallb] in HF. apply andb_true_iff in HF. destruct HF as [Ha HF'].
    rewrite <- app_assoc. fold (aidx_tail r).
    destruct (ws_parray_index_rt a (aidx_tail r ++ 93 :: tail) Ha (aidx_tail_follow r tail)) as [W _].
    cbn [app] in W. rewrite W.
    rewrite IH by (cbn [length] in Hf; try lia; exact HF'). cbn [rev]. rewrite <- app_assoc. reflexivity.
Qed.

Lemma join_aidx a r : join [44; 32] (map show_array_index (a :: r)) = show_array_index a ++ aidx_tail r.
Proof.
  revert a. induction r as [|b r IH]; intros a; [cbn [map join aidx_tail flat_map]; rewrite app_nil_r; reflexivity|].
  cbn [map]. rewrite join_cons2. unfold aidx_tail. cbn [flat_map app]. f_equal. f_equal. f_equal. apply (IH b).
Qed.
Lemma aidx_tail_len r : (length r <= length (aidx_tail r))%nat.
Proof. induction r as [|a r IH]; [cbn; lia|]. unfold aidx_tail in *. cbn [flat_map length]. rewrite app_length. cbn [length]. lia. Qed.

Definition show_indices (l : list array_index) : list N := 91 :: join [44; 32] (map show_array_index l) ++ [93].
Lemma array_indices_rt l rest : is_nil l = false -> forallb safe_aindex l = true ->
  array_indices (show_indices l ++ rest) = POk rest l.
Proof.
  intros Hne HF. destruct l as [|a r]; [discriminate Hne|]. unfold show_indices. rewrite join_aidx.
  cbn [forallb] in HF. apply andb_true_iff in HF. destruct HF as [Ha HF'].
  unfold array_indices. cbn [app pchar]. change (91 =? 91) with true. cbv iota. cbn [pbind].
  unfold separated_list1. rewrite <- !app_assoc. cbn [app].
  destruct (ws_parray_index_rt a (aidx_tail r ++ 93 :: rest) Ha (aidx_tail_follow r rest)) as [_ W].
  rewrite W. cbn [pbind].
  rewrite (aidx_loop_rt rest r [a]) by (try exact HF'; rewrite app_length; cbn [length]; pose proof (aidx_tail_len r); lia).
  cbn [rev app pbind pchar]. change (93 =? 93) with true. cbv iota. cbn [pbind]. reflexivity.
Qed.

(* ---------------------------------------------------------------- steps read by inner_path *)
Definition show_inner (p : path) : list N :=
  match p with
  | PDotWild => [46; 42] | PBracketWild => [91; 42; 93]
  | PColonField s => 58 :: s | PDotField s => 46 :: s
  | PObjectField s => [91; 34] ++ s ++ [34; 93]
  | PIndices l => show_indices l
  | _ => []
  end.
Lemma show_path_inner pf p : safe_inner p = true -> show_path pf p = show_inner p.
Proof. destruct p; try discriminate; reflexivity. Qed.

Lemma inner_path_colon x rest s : palt (pstring x) (fun _ => raw_string x) = POk rest s ->
  inner_path (58 :: x) = POk rest (PColonField s).
Proof.
  intros H. unfold inner_path. change (colon_field (58 :: x)) with (palt (pstring x) (fun _ => raw_string x)).
  rewrite H. reflexivity.
Qed.
Lemma inner_path_dot b x rest s : (b =? 42) = false -> palt (pstring (b :: x)) (fun _ => raw_string (b :: x)) = POk rest s ->
  inner_path (46 :: b :: x) = POk rest (PDotField s).
Proof.
  intros Hb H. unfold inner_path. change (dot_field (46 :: b :: x)) with (palt (pstring (b :: x)) (fun _ => raw_string (b :: x))).
  rewrite H. cbn [ptag]. change (46 =? 46) with true. cbv iota. rewrite Hb. reflexivity.
Qed.
Lemma inner_path_indices c x rest l : is_space c = false -> (c =? 42) = false -> array_indices (91 :: c :: x) = POk rest l ->
  inner_path (91 :: c :: x) = POk rest (PIndices l).
Proof.
  intros Hs Hc H. unfold inner_path. rewrite H. unfold bracket_wildcard. cbn [pchar]. change (91 =? 91) with true. cbv iota.
  cbn [pbind multispace0]. rewrite Hs. cbn [pchar]. rewrite Hc. reflexivity.
Qed.

Lemma field_rt s rest : safe_nameb s = true -> name_follow rest = true ->
  palt (pstring (s ++ rest)) (fun _ => raw_string (s ++ rest)) = POk rest s /\
  exists b r, s = b :: r /\ (b =? 42) = false.
Proof.
  intros Hs Hr. destruct (name_first s Hs) as (b & r & E & Hd & _).
  pose proof (not_delim_neq b 34 Hd ltac:(delim_in)) as Q. pose proof (not_delim_neq b 42 Hd ltac:(delim_in)) as Q2.
  split; [|exists b, r; split; assumption].
  rewrite (raw_string_rt s rest Hs Hr). rewrite E. cbn [app]. rewrite (pstring_not_quote b _ Q). reflexivity.
Qed.

Lemma inner_path_rt p rest : safe_inner p = true -> name_follow rest = true -> inner_path (show_inner p ++ rest) = POk rest p.
Proof.
  intros Hp Hr. destruct p as [| | | |s|s|s|l|e|e]; try discriminate Hp; cbn [show_inner safe_inner] in *.
  - reflexivity.
  - reflexivity.
  - destruct (field_rt s rest Hp Hr) as (F & b & r & E & Hb). cbn [app]. rewrite E in *. cbn [app] in *.
    apply inner_path_dot; assumption.
  - destruct (field_rt s rest Hp Hr) as (F & _). cbn [app]. apply inner_path_colon. exact F.
  - rewrite <- !app_assoc. cbn [app].
    assert (D : inner_path (91 :: 34 :: s ++ 34 :: 93 :: rest) = pmap PObjectField (object_field (91 :: 34 :: s ++ 34 :: 93 :: rest))) by reflexivity.
    rewrite D. unfold object_field. cbn [pchar]. change (91 =? 91) with true. cbv iota. cbn [pbind].
    change (multispace0 (34 :: s ++ 34 :: 93 :: rest)) with (34 :: s ++ 34 :: 93 :: rest).
    rewrite (pstring_roundtrip s (93 :: rest) (safe_quotedb_spec s Hp)). reflexivity.
  - apply andb_true_iff in Hp. destruct Hp as [Hne HF]. apply negb_true_iff in Hne.
    pose proof (array_indices_rt l rest Hne HF) as A.
    destruct l as [|a l']; [discriminate Hne|]. cbn [forallb] in HF. apply andb_true_iff in HF. destruct HF as [Ha _].
    destruct (show_aindex_head a Ha) as (c & r & E & Hsp & Hc).
    unfold show_indices in *. rewrite join_aidx in *. rewrite E in *. cbn [app] in *.
    apply inner_path_indices; assumption.
Qed.

(* first byte of a printed step *)
Lemma show_inner_head p : safe_inner p = true -> exists c r, show_inner p = c :: r /\ (c = 46 \/ c = 58 \/ c = 91).
Proof.
  intros Hp. destruct p; try discriminate Hp; cbn [show_inner show_indices app]; eexists; eexists; (split; [reflexivity|tauto]).
Qed.

(* ---------------------------------------------------------------- many0 over printed items *)
Section Many.
  Context {A : Type}.
  Variable f : list N -> pres A.
  Variable show : A -> list N.
  Variable good : A -> Prop.
  Variable follow : list N -> bool.
  Hypothesis Hf : forall a rest, good a -> follow rest = true -> f (show a ++ rest) = POk (multispace0 rest) a.
  Hypothesis Hhead : forall a x, good a ->
    follow (show a ++ x) = true /\ multispace0 (show a ++ x) = show a ++ x /\ (1 <= length (show a))%nat.

  Lemma many0_rt_ws rest : follow rest = true -> f (multispace0 rest) = PErr ->
    forall l acc fuel, Forall good l -> (length l < fuel)%nat ->
    many0 f fuel (multispace0 (flat_map show l ++ rest)) acc = POk (multispace0 rest) (rev acc ++ l).
  Proof.
    intros Hr Hstop. induction l as [|a l IH]; intros acc fuel HF Hfu; (destruct fuel as [|fuel]; [cbn [length] in Hfu; lia|]); cbn [flat_map app many0].
    - rewrite Hstop, app_nil_r. reflexivity.
    - inversion HF as [|? ? Ha HF']; subst. rewrite <- app_assoc.
      destruct (Hhead a (flat_map show l ++ rest) Ha) as (_ & M & L). rewrite M.
      assert (Fo : follow (flat_map show l ++ rest) = true).
      { destruct l as [|a2 l2]; [exact Hr|]. inversion HF' as [|? ? Ha2 _]; subst. cbn [flat_map]. rewrite <- app_assoc.
        apply (Hhead a2 _ Ha2). }
      rewrite (Hf a _ Ha Fo).
      replace (length (multispace0 (flat_map show l ++ rest)) =? length (show a ++ flat_map show l ++ rest))%nat with false
        by (symmetry; apply Nat.eqb_neq; pose proof (ms_len (flat_map show l ++ rest)); rewrite (app_length (show a)); lia).
      rewrite IH by (try exact HF'; cbn [length] in Hfu; lia). cbn [rev]. rewrite <- app_assoc. reflexivity.
  Qed.

  Lemma many0_rt rest l fuel : follow rest = true -> f rest = PErr -> f (multispace0 rest) = PErr -> Forall good l -> (length l < fuel)%nat ->
    exists r', many0 f fuel (flat_map show l ++ rest) [] = POk r' l /\ multispace0 r' = multispace0 rest.
  Proof.
    intros Hr H1 H2 HF Hfu. destruct l as [|a l].
    - exists rest. destruct fuel as [|fuel]; [cbn [length] in Hfu; lia|]. cbn [flat_map app many0]. rewrite H1. split; reflexivity.
    - exists (multispace0 rest). split; [|apply ms_idem].
      pose proof (many0_rt_ws rest Hr H2 (a :: l) [] fuel HF Hfu) as W. cbn [rev app] in W. rewrite <- W. f_equal.
      inversion HF as [|? ? Ha _]; subst. cbn [flat_map]. rewrite <- app_assoc. symmetry. apply (Hhead a _ Ha).
  Qed.
End Many.

(* ---------------------------------------------------------------- a run of inner steps *)
Lemma inner_path_stop y : hd_notin [46; 58; 91] y = true -> inner_path y = PErr.
Proof.
  destruct y as [|c r]; [reflexivity|]. cbn [hd_notin]. intros H. apply negb_true_iff in H.
  pose proof (existsb_eqb_notin c _ 46 H ltac:(cbn [In]; tauto)) as E1.
  pose proof (existsb_eqb_notin c _ 58 H ltac:(cbn [In]; tauto)) as E2.
  pose proof (existsb_eqb_notin c _ 91 H ltac:(cbn [In]; tauto)) as E3.
  unfold inner_path, bracket_wildcard, colon_field, dot_field, field_after, array_indices, object_field.
  cbn [ptag pchar]. rewrite E1, E2, E3. reflexivity.
Qed.

Lemma ws_inner_path_rt p rest : safe_inner p = true -> name_follow rest = true ->
  ws_around inner_path (show_inner p ++ rest) = POk (multispace0 rest) p.
Proof.
  intros Hp Hr. unfold ws_around. destruct (show_inner_head p Hp) as (c & r & E & Hc).
  assert (M : multispace0 (show_inner p ++ rest) = show_inner p ++ rest).
  { rewrite E. apply ms_app_head. destruct Hc as [-> | [-> | ->]]; reflexivity. }
  rewrite M, (inner_path_rt p rest Hp Hr). reflexivity.
Qed.
Lemma inner_head_facts p x : safe_inner p = true ->
  name_follow (show_inner p ++ x) = true /\ multispace0 (show_inner p ++ x) = show_inner p ++ x /\ (1 <= length (show_inner p))%nat.
Proof.
  intros Hp. destruct (show_inner_head p Hp) as (c & r & E & Hc). rewrite E. cbn [app length].
  destruct Hc as [-> | [-> | ->]]; (split; [reflexivity|split; [reflexivity|lia]]).
Qed.
Lemma forallb_Forall {A} (g : A -> bool) l : forallb g l = true -> Forall (fun a => g a = true) l.
Proof. intros H. apply Forall_forall. intros a Ha. rewrite forallb_forall in H. apply H. exact Ha. Qed.

Definition steps_follow (rest : list N) : bool := name_follow rest && hd_notin [46; 58; 91] (multispace0 rest).

Lemma flat_len_ge {A} (show : A -> list N) (good : A -> Prop) l :
  (forall a, good a -> (1 <= length (show a))%nat) -> Forall good l -> (length l <= length (flat_map show l))%nat.
Proof.
  intros H. induction 1 as [|a l Ha _ IH]; [cbn; lia|]. cbn [flat_map length]. rewrite app_length. specialize (H a Ha). lia.
Qed.

Lemma inner_steps_rt l rest : forallb safe_inner l = true -> steps_follow rest = true ->
  exists r', many0 (ws_around inner_path) (S (length (flat_map show_inner l ++ rest))) (flat_map show_inner l ++ rest) [] = POk r' l
             /\ multispace0 r' = multispace0 rest.
Proof.
  intros HF Hr. apply andb_true_iff in Hr. destruct Hr as [Hr1 Hr2].
  assert (Stop : inner_path (multispace0 rest) = PErr) by (apply inner_path_stop; exact Hr2).
  apply forallb_Forall in HF.
  apply (many0_rt (ws_around inner_path) show_inner (fun p => safe_inner p = true) name_follow).
  - intros a r Ha Hf. apply ws_inner_path_rt; assumption.
  - intros a x Ha. apply inner_head_facts. exact Ha.
  - exact Hr1.
  - unfold ws_around. rewrite Stop. reflexivity.
  - unfold ws_around. rewrite ms_idem, Stop. reflexivity.
  - exact HF.
  - rewrite app_length.
    pose proof (flat_len_ge show_inner _ l (fun a Ha => proj2 (proj2 (inner_head_facts a [] Ha))) HF). lia.
Qed.

(* ---------------------------------------------------------------- literal values *)
Definition val_follow (rest : list N) : bool := hd_in [32; 41] rest.
Lemma val_follow_facts rest : val_follow rest = true -> no_digit_next rest /\ not_float_tail rest = true.
Proof.
  destruct rest as [|c r]; [intros _; split; [exact I|reflexivity]|]. cbn [val_follow hd_in]. intros H. apply existsb_eqb_in in H.
  destruct H as [<- | [<- | []]]; split; reflexivity.
Qed.

(* the per-float hypothesis: the printer's text for this float is read back by the path parser's literal reader
   (for ryu's output that is nom's `double`, after `u64` and `i64` have declined because of the '.' or the exponent) *)
Definition path_float_reads_back (pf : N -> list N) (b : N) : Prop :=
  (exists c r, pf b = c :: r /\ is_space c = false /\ c <> 36 /\ c <> 64) /\
  forall rest, val_follow rest = true -> path_value (pf b ++ rest) = POk rest (PVNum (NFloat b)).

Lemma path_value_digit d x : is_digit d = true ->
  path_value (d :: x) =
  palt (pdo (r, v) <- pu64 (d :: x); if not_float_tail r then POk r (PVNum (NUInt (Z.to_N v))) else PErr) (fun _ =>
  palt (pdo (r, v) <- pi64 (d :: x); if not_float_tail r then POk r (PVNum (NInt v)) else PErr) (fun _ =>
  palt (pmap (fun b => PVNum (NFloat b)) (pdouble (d :: x))) (fun _ => pmap PVStr (pstring (d :: x))))).
Proof.
  intros H. unfold is_digit in H. apply andb_true_iff in H. destruct H as [H1 H2]. apply N.leb_le in H1. apply N.leb_le in H2.
  unfold path_value. cbn [ptag pchar].
  replace (d =? 110) with false by (symmetry; apply N.eqb_neq; lia).
  replace (d =? 116) with false by (symmetry; apply N.eqb_neq; lia).
  replace (d =? 102) with false by (symmetry; apply N.eqb_neq; lia).
  replace (d =? 45) with false by (symmetry; apply N.eqb_neq; lia). reflexivity.
Qed.
Lemma path_value_minus x :
  path_value (45 :: x) =
  palt (pdo (r, v) <- pi64 (45 :: x); if not_float_tail r then POk r (PVNum (NInt v)) else PErr) (fun _ =>
  palt (pmap (fun b => PVNum (NFloat b)) (pdouble (45 :: x))) (fun _ =>
  palt (pmap (fun _ => PVNum (NFloat F_NEG_INF)) (ptag_no_case [105; 110; 102] x)) (fun _ => PErr))).
Proof. reflexivity. Qed.
Lemma path_value_quote x : path_value (34 :: x) = pmap PVStr (pstring (34 :: x)).
Proof. reflexivity. Qed.

Section Values.
  Variable pf : N -> list N.
  Variable okf : N -> bool.
  Hypothesis Hfl : forall b, okf b = true -> path_float_reads_back pf b.

  Lemma path_value_rt v rest : safe_value okf v = true -> val_follow rest = true ->
    path_value (show_pvalue pf v ++ rest) = POk rest v.
  Proof.
    intros Hv Hr. destruct (val_follow_facts rest Hr) as (Hnd & Hnf).
    destruct v as [|[|]|[z|u|b]|s]; cbn [show_pvalue safe_value] in *.
    - reflexivity.
    - reflexivity.
    - reflexivity.
    - apply andb_true_iff in Hv. destruct Hv as [H1 H2]. apply Z.leb_le in H1. apply Z.ltb_lt in H2.
      pose proof (pi64_rt z rest ltac:(unfold two63 in *; lia) Hnd) as P.
      unfold dec_Z in *. replace (z <? 0)%Z with true in * by (symmetry; apply Z.ltb_lt; lia). cbn [app] in *.
      rewrite path_value_minus, P. cbn [pbind]. rewrite Hnf. reflexivity.
    - apply N.ltb_lt in Hv. pose proof (pu64_rt u rest Hv Hnd) as P.
      destruct (dec_digits_cons u Hv) as (d & r & E & Hd). rewrite E in *. cbn [app] in *.
      rewrite (path_value_digit d _ Hd), P. cbn [pbind]. rewrite Hnf, N2Z.id. reflexivity.
    - destruct (Hfl b Hv) as (_ & R). apply R. exact Hr.
    - cbn [app]. rewrite <- app_assoc. cbn [app]. rewrite path_value_quote.
      rewrite (pstring_roundtrip s rest (safe_quotedb_spec s Hv)). reflexivity.
  Qed.

  Lemma show_pvalue_head v : safe_value okf v = true ->
    exists c r, show_pvalue pf v = c :: r /\ is_space c = false /\ c <> 36 /\ c <> 64.
  Proof.
    intros Hv. destruct v as [|[|]|[z|u|b]|s]; cbn [show_pvalue safe_value] in *;
      try (eexists; eexists; split; [reflexivity|split; [reflexivity|split; discriminate]]).
    - apply andb_true_iff in Hv. destruct Hv as [_ H2]. unfold dec_Z. rewrite H2.
      eexists; eexists; split; [reflexivity|split; [reflexivity|split; discriminate]].
    - apply N.ltb_lt in Hv. destruct (dec_digits_cons u Hv) as (d & r & E & Hd). exists d, r. split; [exact E|].
      split; [apply digit_not_space; exact Hd|]. unfold is_digit in Hd. apply andb_true_iff in Hd. destruct Hd as [H1 H2].
      apply N.leb_le in H1. apply N.leb_le in H2. split; lia.
    - destruct (Hfl b Hv) as (H & _). exact H.
  Qed.

  (* ---------------------------------------------------------------- operands *)
  Definition show_operand (e : expr) : list N :=
    match e with
    | EPaths (PRoot :: l) => 36 :: flat_map show_inner l
    | EPaths (PCurrent :: l) => 64 :: flat_map show_inner l
    | EValue v => show_pvalue pf v
    | _ => []
    end.
  Lemma flat_show_inner l : forallb safe_inner l = true -> flat_map (show_path pf) l = flat_map show_inner l.
  Proof.
    induction l as [|p l IH]; [reflexivity|]. cbn [forallb flat_map]. intros H. apply andb_true_iff in H. destruct H as [Hp Hl].
    rewrite (show_path_inner pf p Hp), IH by exact Hl. reflexivity.
  Qed.
  Lemma show_expr_paths l : show_expr pf (EPaths l) = flat_map (show_path pf) l.
  Proof. reflexivity. Qed.
  Lemma show_expr_operand rp e : safe_operand okf rp e = true -> show_expr pf e = show_operand e.
  Proof.
    destruct e as [l|v| | | |]; try discriminate; [|reflexivity].
    destruct l as [|p l]; [discriminate|]. rewrite show_expr_paths.
    destruct p; try discriminate; cbn [safe_operand show_operand flat_map]; intros H.
    - rewrite (flat_show_inner l H). reflexivity.
    - apply andb_true_iff in H. destruct H as [_ H]. rewrite (flat_show_inner l H). reflexivity.
  Qed.

  Definition opnd_follow (rest : list N) : bool := val_follow rest && hd_notin [46; 58; 91] (multispace0 rest).
  Lemma opnd_steps_follow rest : opnd_follow rest = true -> steps_follow rest = true.
  Proof.
    unfold opnd_follow, steps_follow. intros H. apply andb_true_iff in H. destruct H as [H1 H2]. rewrite H2, andb_true_r.
    destruct rest as [|c r]; [reflexivity|]. cbn [val_follow hd_in] in H1. apply existsb_eqb_in in H1.
    destruct H1 as [<- | [<- | []]]; reflexivity.
  Qed.

  Lemma expr_paths_fail rp c x : c <> 36 -> c <> 64 -> expr_paths rp (c :: x) = PErr.
  Proof.
    intros H1 H2. apply N.eqb_neq in H1. apply N.eqb_neq in H2. unfold expr_paths. cbn [pchar]. rewrite H1, H2.
    destruct rp; reflexivity.
  Qed.

  Lemma ws_inner_expr_rt rp e rest : safe_operand okf rp e = true -> opnd_follow rest = true ->
    ws_around (inner_expr rp) (show_operand e ++ rest) = POk (multispace0 rest) e.
  Proof.
    intros He Hr. pose proof (opnd_steps_follow rest Hr) as Hs.
    destruct e as [l|v| | | |]; try discriminate He.
    - destruct l as [|p l]; [discriminate He|]. destruct p; try discriminate He; cbn [safe_operand show_operand] in *.
      + destruct (inner_steps_rt l rest He Hs) as (r' & E & M).
        unfold ws_around. cbn [app multispace0]. change (is_space 36) with false. cbv iota.
        unfold inner_expr, expr_paths. cbn [pchar]. change (36 =? 36) with true. cbv iota. cbn [pmap pbind palt].
        rewrite E. cbn [pmap pbind palt]. rewrite M. reflexivity.
      + apply andb_true_iff in He. destruct He as [Hrp He]. apply negb_true_iff in Hrp. subst rp.
        destruct (inner_steps_rt l rest He Hs) as (r' & E & M).
        unfold ws_around. cbn [app multispace0]. change (is_space 64) with false. cbv iota.
        unfold inner_expr, expr_paths. cbn [pchar]. change (64 =? 36) with false. change (64 =? 64) with true. cbv iota. cbn [pmap pbind palt].
        rewrite E. cbn [pmap pbind palt]. rewrite M. reflexivity.
    - cbn [safe_operand show_operand] in *. destruct (show_pvalue_head v He) as (c & r & E & Hsp & H36 & H64).
      apply andb_true_iff in Hr. destruct Hr as [Hr _].
      unfold ws_around. assert (M : multispace0 (show_pvalue pf v ++ rest) = show_pvalue pf v ++ rest) by (rewrite E; apply ms_app_head; exact Hsp).
      rewrite M. unfold inner_expr. rewrite E. cbn [app]. rewrite (expr_paths_fail rp c _ H36 H64). cbn [pmap pbind palt].
      change (c :: r ++ rest) with ((c :: r) ++ rest). rewrite <- E. rewrite (path_value_rt v rest He Hr). reflexivity.
  Qed.
End Values.

(* ---------------------------------------------------------------- unfolding equations of the mutual fixpoints *)
Definition show_atom (pf : N -> list N) (x : expr) : list N :=
  if is_logic x then 40 :: show_expr pf x ++ [41] else show_expr pf x.
Lemma show_expr_bin pf op l r :
  show_expr pf (EBin op l r) = show_atom pf l ++ [32] ++ show_binop op ++ [32] ++ show_atom pf r.
Proof. reflexivity. Qed.
Lemma show_expr_arith pf op l r :
  show_expr pf (EArithB op l r) =
  show_expr pf l ++ [32] ++ (match op with BAdd => [43] | BSub => [45] | BMul => [42] | BDiv => [47] | BMod => [37] end) ++ [32] ++ show_expr pf r.
Proof. reflexivity. Qed.
Lemma show_expr_exists pf l :
  show_expr pf (EExists l) = [101; 120; 105; 115; 116; 115; 40] ++ flat_map (show_path pf) l ++ [41].
Proof. reflexivity. Qed.
Lemma show_path_filter pf e : show_path pf (PFilter e) = [63; 40] ++ show_expr pf e ++ [41].
Proof. reflexivity. Qed.
Lemma show_path_predicate pf e : show_path pf (PPredicate e) = show_expr pf e.
Proof. reflexivity. Qed.
Lemma show_path_root pf : show_path pf PRoot = [36].
Proof. reflexivity. Qed.
Lemma safe_expr_S okf rp e :
  safe_expr okf rp e =
  match e with
  | EBin op l r =>
      if is_cmp op then safe_operand okf rp l && safe_operand okf rp r
      else safe_expr okf rp l && safe_expr okf rp r
  | EArithB _ l r => safe_operand okf rp l && safe_operand okf rp r
  | EArithU _ x => is_paths x && safe_operand okf rp x
  | EExists (PRoot :: l) | EExists (PCurrent :: l) => forallb (safe_step okf) l
  | _ => false
  end.
Proof. destruct e; reflexivity. Qed.
Definition show_uarith (op : uarith) : list N := match op with UAdd => [43] | USub => [45] end.
Lemma show_expr_unary pf op x : show_expr pf (EArithU op x) = show_uarith op ++ show_expr pf x.
Proof. reflexivity. Qed.
Lemma safe_step_S okf p :
  safe_step okf p = match p with PFilter e => safe_expr okf false e | _ => safe_inner p end.
Proof. reflexivity. Qed.

Lemma operand_not_logic okf rp e : safe_operand okf rp e = true -> is_logic e = false.
Proof. destruct e; try discriminate; reflexivity. Qed.

Definition atom_follow (rest : list N) : bool := hd_in [32; 41] rest && hd_in [41; 38; 124] (multispace0 rest).
Definition fl_close (rest : list N) : bool := hd_in [41] rest.

Lemma atom_opnd_follow rest : atom_follow rest = true -> opnd_follow rest = true.
Proof.
  unfold atom_follow, opnd_follow, val_follow. intros H. apply andb_true_iff in H. destruct H as [H1 H2]. rewrite H1. cbn [andb].
  destruct (multispace0 rest) as [|c r]; [reflexivity|]. cbn [hd_in] in H2. apply existsb_eqb_in in H2.
  destruct H2 as [<- | [<- | [<- | []]]]; reflexivity.
Qed.
Lemma fl_close_facts rest : fl_close rest = true ->
  atom_follow rest = true /\ multispace0 rest = rest /\ ptag [38; 38] rest = PErr /\ ptag [124; 124] rest = PErr /\ name_follow rest = true.
Proof.
  destruct rest as [|c r]; [intros _; repeat split; reflexivity|]. cbn [fl_close hd_in]. intros H. apply existsb_eqb_in in H.
  destruct H as [<- | []]. repeat split; reflexivity.
Qed.

Definition head_ok (t : list N) : Prop := exists c r, t = c :: r /\ is_space c = false.
Lemma head_ok_ms t x : head_ok t -> multispace0 (t ++ x) = t ++ x.
Proof. intros (c & r & -> & H). apply ms_app_head. exact H. Qed.

Lemma flat_len_each {A} (show : A -> list N) l a : In a l -> (length (show a) <= length (flat_map show l))%nat.
Proof.
  induction l as [|b l IH]; [intros []|]. cbn [flat_map]. rewrite app_length. intros [-> | H]; [lia|]. specialize (IH H). lia.
Qed.

Section Heads.
  Variable pf : N -> list N.
  Variable okf : N -> bool.
  Hypothesis Hfl : forall b, okf b = true -> path_float_reads_back pf b.

  (* first bytes *)
  Lemma show_operand_head rp e : safe_operand okf rp e = true -> head_ok (show_operand pf e).
  Proof.
    destruct e as [l|v| | | |]; try discriminate.
    - destruct l as [|p l]; [discriminate|]. destruct p; try discriminate; intros _; eexists; eexists; split; reflexivity.
    - cbn [safe_operand show_operand]. intros H. destruct (show_pvalue_head pf okf Hfl v H) as (c & r & E & Hs & _).
      exists c, r. split; assumption.
  Qed.
  Lemma show_expr_head : forall rp e, safe_expr okf rp e = true -> head_ok (show_expr pf e).
  Proof.
    intros rp e. revert rp.
    induction e as [l IH|v|op l r IHl IHr|op x IHx|op l r IHl IHr|l IH] using expr_ind_steps; intros rp H; rewrite safe_expr_S in H;
      try discriminate H.
    - rewrite show_expr_bin. destruct (is_cmp op) eqn:Ec.
      + apply andb_true_iff in H. destruct H as [Hl Hr].
        unfold show_atom. rewrite (operand_not_logic okf rp l Hl), (show_expr_operand pf okf rp l Hl).
        destruct (show_operand_head rp l Hl) as (c & t & -> & Hc). eexists; eexists; split; [reflexivity|exact Hc].
      + apply andb_true_iff in H. destruct H as [Hl _]. unfold show_atom at 1. destruct (is_logic l).
        * eexists; eexists; split; reflexivity.
        * destruct (IHl rp Hl) as (c & t & -> & Hc). eexists; eexists; split; [reflexivity|exact Hc].
    - rewrite show_expr_unary. destruct op; eexists; eexists; split; reflexivity.
    - rewrite show_expr_arith. apply andb_true_iff in H. destruct H as [Hl Hr]. rewrite (show_expr_operand pf okf rp l Hl).
      destruct (show_operand_head rp l Hl) as (c & t & -> & Hc). eexists; eexists; split; [reflexivity|exact Hc].
    - rewrite show_expr_exists. eexists; eexists; split; reflexivity.
  Qed.
  Lemma show_path_head p : safe_step okf p = true ->
    exists c r, show_path pf p = c :: r /\ (c = 46 \/ c = 58 \/ c = 91 \/ c = 63).
  Proof.
    rewrite safe_step_S. destruct p; try discriminate; intros H;
      try (rewrite (show_path_inner pf _ H); destruct (show_inner_head _ H) as (c & r & -> & Hc); exists c, r; split; [reflexivity|tauto]).
    rewrite show_path_filter. eexists; eexists; split; [reflexivity|tauto].
  Qed.
  Lemma step_head_facts p x : safe_step okf p = true ->
    name_follow (show_path pf p ++ x) = true /\ multispace0 (show_path pf p ++ x) = show_path pf p ++ x
    /\ (1 <= length (show_path pf p))%nat.
  Proof.
    intros Hp. destruct (show_path_head p Hp) as (c & r & E & Hc). rewrite E. cbn [app length].
    destruct Hc as [-> | [-> | [-> | ->]]]; (split; [reflexivity|split; [reflexivity|lia]]).
  Qed.

End Heads.

Section Level.
  Variable pf : N -> list N.
  Variable okf : N -> bool.
  Hypothesis Hfl : forall b, okf b = true -> path_float_reads_back pf b.
  (* n bounds the SIZE of the expressions / steps already dealt with (PathInd.esize / psize), m is the parser's fuel *)
  Variable n m : nat.
  Hypothesis HP : forall rp e rest, (esize e <= n)%nat -> safe_expr okf rp e = true -> (length (show_expr pf e) < m)%nat ->
    fl_close rest = true -> expr_or_fuel m rp (show_expr pf e ++ rest) = POk rest e.
  Hypothesis HQ : forall p rest, (psize p <= n)%nat -> safe_step okf p = true -> (length (show_path pf p) < m)%nat ->
    name_follow rest = true -> path_fuel m (show_path pf p ++ rest) = POk (multispace0 rest) p.

  Variable rp : bool.
  Notation atom := (expr_atom rp (path_fuel m) (expr_or_fuel m rp)).
  Definition atom_ok (t : list N) (x : expr) : Prop :=
    forall rest, atom_follow rest = true ->
    exists r', atom (t ++ rest) = POk r' x /\ (r' = rest \/ r' = multispace0 rest).

  (* comparison and arithmetic *)
  Lemma cmp_follow op x : is_cmp op = true ->
    opnd_follow (32 :: show_binop op ++ 32 :: x) = true /\
    pbarith (multispace0 (32 :: show_binop op ++ 32 :: x)) = PErr /\
    pop (multispace0 (32 :: show_binop op ++ 32 :: x)) = POk (32 :: x) op.
  Proof. destruct op; try discriminate; intros _; repeat split; reflexivity. Qed.
  Definition show_barith (op : barith) : list N :=
    match op with BAdd => [43] | BSub => [45] | BMul => [42] | BDiv => [47] | BMod => [37] end.
  Lemma arith_follow op x :
    opnd_follow (32 :: show_barith op ++ 32 :: x) = true /\
    pbarith (multispace0 (32 :: show_barith op ++ 32 :: x)) = POk (32 :: x) op.
  Proof. destruct op; repeat split; reflexivity. Qed.

  Lemma ws_skip_space {A} (p : list N -> pres A) x : ws_around p (32 :: x) = ws_around p x.
  Proof. reflexivity. Qed.

  Lemma atom_cmp op l r : is_cmp op = true -> safe_operand okf rp l = true -> safe_operand okf rp r = true ->
    atom_ok (show_operand pf l ++ [32] ++ show_binop op ++ [32] ++ show_operand pf r) (EBin op l r).
  Proof.
    intros Hc Hl Hr rest Hrest. exists (multispace0 rest). split; [|right; reflexivity].
    rewrite <- !app_assoc. cbn [app].
    destruct (cmp_follow op (show_operand pf r ++ rest) Hc) as (F1 & F2 & F3).
    pose proof (ws_inner_expr_rt pf okf Hfl rp l _ Hl F1) as L.
    pose proof (ws_inner_expr_rt pf okf Hfl rp r rest Hr (atom_opnd_follow rest Hrest)) as R.
    unfold expr_atom. rewrite L. cbn [pbind]. rewrite F2. cbn [pbind palt]. rewrite F3. cbn [pbind].
    rewrite ws_skip_space, R. reflexivity.
  Qed.
  Lemma atom_arith op l r : safe_operand okf rp l = true -> safe_operand okf rp r = true ->
    atom_ok (show_operand pf l ++ [32] ++ show_barith op ++ [32] ++ show_operand pf r) (EArithB op l r).
  Proof.
    intros Hl Hr rest Hrest. exists (multispace0 rest). split; [|right; reflexivity].
    rewrite <- !app_assoc. cbn [app].
    destruct (arith_follow op (show_operand pf r ++ rest)) as (F1 & F2).
    pose proof (ws_inner_expr_rt pf okf Hfl rp l _ Hl F1) as L.
    pose proof (ws_inner_expr_rt pf okf Hfl rp r rest Hr (atom_opnd_follow rest Hrest)) as R.
    unfold expr_atom. rewrite L. cbn [pbind]. rewrite F2. cbn [pbind palt].
    rewrite ws_skip_space, R. reflexivity.
  Qed.

  Lemma atom_unary op hd l : (hd = PRoot \/ hd = PCurrent) -> safe_operand okf rp (EPaths (hd :: l)) = true ->
    atom_ok (show_uarith op ++ show_operand pf (EPaths (hd :: l))) (EArithU op (EPaths (hd :: l))).
  Proof.
    intros Hhd Hx rest Hrest. exists (multispace0 rest). split; [|right; reflexivity].
    pose proof (ws_inner_expr_rt pf okf Hfl rp _ rest Hx (atom_opnd_follow rest Hrest)) as R.
    rewrite <- app_assoc.
    assert (W : forall o h X, (o = 43 \/ o = 45) -> (h = 36 \/ h = 64) -> ws_around (inner_expr rp) (o :: h :: X) = PErr)
      by (intros o h X [-> | ->] [-> | ->]; destruct rp; reflexivity).
    unfold expr_atom.
    destruct Hhd as [-> | ->]; destruct op; cbn [show_uarith show_operand app] in *;
      rewrite W by tauto; cbn [pbind palt];
      match goal with |- context [punary (?o :: ?X)] =>
        change (punary (o :: X)) with (POk X (if o =? 43 then UAdd else USub)) end;
      cbn [pbind]; rewrite R; reflexivity.
  Qed.

  (* parenthesised expression *)
  Lemma atom_open x r2 e r3 : expr_or_fuel m rp (multispace0 x) = POk r2 e -> pchar 41 (multispace0 r2) = POk r3 tt ->
    atom (40 :: x) = POk r3 e.
  Proof.
    intros H1 H2. unfold expr_atom.
    assert (W : ws_around (inner_expr rp) (40 :: x) = PErr) by (destruct rp; reflexivity). rewrite W. cbn [pbind palt].
    change (punary (40 :: x)) with (@PErr uarith). change (pchar 40 (40 :: x)) with (POk x tt). cbn [pbind palt].
    rewrite H1. cbn [pbind]. rewrite H2. reflexivity.
  Qed.
  Lemma atom_paren e : (esize e <= n)%nat -> safe_expr okf rp e = true -> (length (show_expr pf e) < m)%nat ->
    atom_ok (40 :: show_expr pf e ++ [41]) e.
  Proof.
    intros Hj He Hlen rest Hrest. exists rest. split; [|left; reflexivity].
    cbn [app]. rewrite <- app_assoc. cbn [app]. apply (atom_open _ (41 :: rest)); [|reflexivity].
    rewrite (head_ok_ms _ _ (show_expr_head pf okf Hfl rp e He)).
    apply (HP rp e (41 :: rest) Hj He Hlen eq_refl).
  Qed.

  (* exists(...) *)
  Lemma atom_exists_open x : atom (101 :: 120 :: 105 :: 115 :: 116 :: 115 :: 40 :: x) =
    pdo (r3, ps) <- exists_paths (path_fuel m) (multispace0 x); pdo (r4, _) <- pchar 41 (multispace0 r3); POk r4 (EExists ps).
  Proof.
    unfold expr_atom.
    assert (W : ws_around (inner_expr rp) (101 :: 120 :: 105 :: 115 :: 116 :: 115 :: 40 :: x) = PErr) by (destruct rp; reflexivity).
    rewrite W. cbn [pbind palt]. reflexivity.
  Qed.
  Lemma path_fuel_close x : path_fuel m (41 :: x) = PErr.
  Proof. destruct m; reflexivity. Qed.

  Lemma exists_steps_rt l rest : Forall (fun p => (psize p <= n)%nat) l -> forallb (safe_step okf) l = true ->
    (length (flat_map (show_path pf) l) < m)%nat ->
    exists r', many0 (path_fuel m) (S (length (flat_map (show_path pf) l ++ 41 :: rest))) (flat_map (show_path pf) l ++ 41 :: rest) [] = POk r' l
               /\ multispace0 r' = 41 :: rest.
  Proof.
    intros Hf HF Hlen.
    assert (G : Forall (fun p => (psize p <= n)%nat /\ safe_step okf p = true /\ (length (show_path pf p) < m)%nat) l).
    { apply Forall_forall. intros p Hp. split; [rewrite Forall_forall in Hf; apply Hf; exact Hp|].
      split; [rewrite forallb_forall in HF; apply HF; exact Hp|].
      pose proof (flat_len_each (show_path pf) l p Hp). lia. }
    apply (many0_rt (path_fuel m) (show_path pf) (fun p => (psize p <= n)%nat /\ safe_step okf p = true /\ (length (show_path pf p) < m)%nat) name_follow).
    - intros a r (Hn & Ha & La) Hr. apply HQ; assumption.
    - intros a x (_ & Ha & _). apply (step_head_facts pf okf). exact Ha.
    - reflexivity.
    - apply path_fuel_close.
    - apply path_fuel_close.
    - exact G.
    - rewrite app_length.
      pose proof (flat_len_ge (show_path pf) _ l (fun a Ha => proj2 (proj2 (step_head_facts pf okf a [] (proj1 (proj2 Ha))))) G). lia.
  Qed.

  Lemma atom_exists hd l : Forall (fun p => (psize p <= n)%nat) l -> (hd = PRoot \/ hd = PCurrent) -> forallb (safe_step okf) l = true ->
    (length (flat_map (show_path pf) l) < m)%nat ->
    atom_ok (show_expr pf (EExists (hd :: l))) (EExists (hd :: l)).
  Proof.
    intros Hf Hhd HF Hlen rest Hrest. exists rest. split; [|left; reflexivity].
    rewrite show_expr_exists.
    destruct (exists_steps_rt l rest Hf HF Hlen) as (r' & E & M).
    cbn [flat_map]. rewrite <- !app_assoc. cbn [app]. rewrite atom_exists_open.
    destruct Hhd as [-> | ->].
    - change (show_path pf PRoot) with [36]. cbn [app multispace0]. change (is_space 36) with false. cbv iota.
      unfold exists_paths. cbn [pchar]. change (36 =? 36) with true. cbv iota. cbn [pmap pbind palt].
      rewrite E. cbn [pbind]. rewrite M. reflexivity.
    - change (show_path pf PCurrent) with [64]. cbn [app multispace0]. change (is_space 64) with false. cbv iota.
      unfold exists_paths. cbn [pchar]. change (64 =? 36) with false. change (64 =? 64) with true. cbv iota. cbn [pmap pbind palt].
      rewrite E. cbn [pbind]. rewrite M. reflexivity.
  Qed.

  (* ---- && and || : the printer parenthesises every logical operand, so a printed chain has exactly two members *)
  Notation eand := (expr_and rp (path_fuel m) (expr_or_fuel m rp)).
  Notation eor := (expr_or rp (path_fuel m) (expr_or_fuel m rp)).
  Definition and_ok (t : list N) (x : expr) : Prop :=
    forall rest, atom_follow rest = true -> ptag [38; 38] (multispace0 rest) = PErr ->
    exists r', eand (t ++ rest) = POk r' x /\ (r' = rest \/ r' = multispace0 rest).
  Definition or_ok (t : list N) (x : expr) : Prop :=
    forall rest, fl_close rest = true -> eor (t ++ rest) = POk rest x.

  Lemma after_ms r' rest : r' = rest \/ r' = multispace0 rest -> multispace0 r' = multispace0 rest.
  Proof. intros [-> | ->]; [reflexivity|apply ms_idem]. Qed.

  Lemma and_single t x : atom_ok t x -> and_ok t x.
  Proof.
    intros Ha rest Hr Hs. destruct (Ha rest Hr) as (r' & E & D). exists r'. split; [|exact D].
    unfold expr_and, separated_list1. rewrite E. cbn [pbind sep_loop]. rewrite (after_ms r' rest D), Hs. reflexivity.
  Qed.

  Lemma and_pair t1 x1 t2 x2 : atom_ok t1 x1 -> atom_ok t2 x2 -> head_ok t2 ->
    and_ok (t1 ++ [32; 38; 38; 32] ++ t2) (EBin OAnd x1 x2).
  Proof.
    intros Ha1 Ha2 Hh rest Hr Hs. rewrite <- !app_assoc. cbn [app].
    destruct (Ha1 (32 :: 38 :: 38 :: 32 :: t2 ++ rest) eq_refl) as (r1 & E1 & D1).
    destruct (Ha2 rest Hr) as (r2 & E2 & D2). exists r2. split; [|exact D2].
    pose proof (head_ok_ms t2 rest Hh) as M2.
    assert (L : (length (t2 ++ rest) =? length r1)%nat = false /\ exists k, length r1 = S k).
    { destruct D1 as [-> | ->]; cbn [multispace0 length]; change (is_space 32) with true; change (is_space 38) with false; cbv iota; cbn [length];
        (split; [apply Nat.eqb_neq; lia|eexists; reflexivity]). }
    destruct L as (L & k & Lk).
    unfold expr_and, separated_list1. rewrite E1. cbn [pbind sep_loop].
    rewrite (after_ms r1 _ D1).
    change (multispace0 (32 :: 38 :: 38 :: 32 :: t2 ++ rest)) with (38 :: 38 :: 32 :: t2 ++ rest).
    change (ptag [38; 38] (38 :: 38 :: 32 :: t2 ++ rest)) with (POk (32 :: t2 ++ rest) tt).
    cbn [pbind]. change (multispace0 (32 :: t2 ++ rest)) with (multispace0 (t2 ++ rest)). rewrite M2.
    rewrite L, E2. rewrite Lk. cbn [sep_loop]. rewrite (after_ms r2 rest D2), Hs. reflexivity.
  Qed.

  Lemma or_single t x : and_ok t x -> or_ok t x.
  Proof.
    intros Ha rest Hr. destruct (fl_close_facts rest Hr) as (F1 & F2 & F3 & F4 & _).
    destruct (Ha rest F1 ltac:(rewrite F2; exact F3)) as (r' & E & D).
    assert (r' = rest) by (destruct D as [-> | ->]; [reflexivity|exact F2]). subst r'.
    unfold expr_or, separated_list1. rewrite E. cbn [pbind sep_loop]. rewrite F2, F4. reflexivity.
  Qed.

  Lemma or_pair t1 x1 t2 x2 : and_ok t1 x1 -> and_ok t2 x2 -> head_ok t2 ->
    or_ok (t1 ++ [32; 124; 124; 32] ++ t2) (EBin OOr x1 x2).
  Proof.
    intros Ha1 Ha2 Hh rest Hr. destruct (fl_close_facts rest Hr) as (F1 & F2 & F3 & F4 & _).
    rewrite <- !app_assoc. cbn [app].
    destruct (Ha1 (32 :: 124 :: 124 :: 32 :: t2 ++ rest) eq_refl eq_refl) as (r1 & E1 & D1).
    destruct (Ha2 rest F1 ltac:(rewrite F2; exact F3)) as (r2 & E2 & D2).
    assert (r2 = rest) by (destruct D2 as [-> | ->]; [reflexivity|exact F2]). subst r2.
    pose proof (head_ok_ms t2 rest Hh) as M2.
    assert (L : (length (t2 ++ rest) =? length r1)%nat = false /\ exists k, length r1 = S k).
    { destruct D1 as [-> | ->]; cbn [multispace0 length]; change (is_space 32) with true; change (is_space 124) with false; cbv iota; cbn [length];
        (split; [apply Nat.eqb_neq; lia|eexists; reflexivity]). }
    destruct L as (L & k & Lk).
    unfold expr_or, separated_list1. rewrite E1. cbn [pbind sep_loop].
    rewrite (after_ms r1 _ D1).
    change (multispace0 (32 :: 124 :: 124 :: 32 :: t2 ++ rest)) with (124 :: 124 :: 32 :: t2 ++ rest).
    change (ptag [124; 124] (124 :: 124 :: 32 :: t2 ++ rest)) with (POk (32 :: t2 ++ rest) tt).
    cbn [pbind]. change (multispace0 (32 :: t2 ++ rest)) with (multispace0 (t2 ++ rest)). rewrite M2.
    rewrite L, E2. rewrite Lk. cbn [sep_loop]. rewrite F2, F4. reflexivity.
  Qed.

  (* ---- one level of the grammar, given the levels below *)
  Lemma atom_nl x : (esize x <= S n)%nat -> is_logic x = false -> safe_expr okf rp x = true ->
    (length (show_expr pf x) <= m)%nat -> atom_ok (show_expr pf x) x.
  Proof.
    intros Hj Hnl Hs Hlen. rewrite safe_expr_S in Hs.
    destruct x as [l|v|op l r|op y|op l r|l]; try discriminate Hs.
    - destruct (is_cmp op) eqn:Ec; [|destruct op; discriminate].
      apply andb_true_iff in Hs. destruct Hs as [Hl Hr].
      rewrite show_expr_bin. unfold show_atom.
      rewrite (operand_not_logic okf rp l Hl), (operand_not_logic okf rp r Hr).
      rewrite (show_expr_operand pf okf rp l Hl), (show_expr_operand pf okf rp r Hr).
      apply atom_cmp; assumption.
    - apply andb_true_iff in Hs. destruct Hs as [Hp Hy].
      rewrite show_expr_unary, (show_expr_operand pf okf rp y Hy).
      destruct y as [l| | | | |]; try discriminate Hp. destruct l as [|hd l]; [discriminate Hy|].
      apply atom_unary; [destruct hd; try discriminate Hy; tauto|exact Hy].
    - apply andb_true_iff in Hs. destruct Hs as [Hl Hr].
      rewrite show_expr_arith.
      rewrite (show_expr_operand pf okf rp l Hl), (show_expr_operand pf okf rp r Hr).
      apply atom_arith; assumption.
    - destruct l as [|hd l]; [discriminate Hs|].
      assert (Hhd : (hd = PRoot \/ hd = PCurrent) /\ forallb (safe_step okf) l = true)
        by (destruct hd; try discriminate Hs; (split; [tauto|exact Hs])).
      destruct Hhd as [Hhd HF].
      apply atom_exists; try assumption.
      + rewrite esize_exists in Hj. change (list_sum (map psize (hd :: l))) with (psize hd + list_sum (map psize l))%nat in Hj. apply Forall_forall. intros q Hq. pose proof (psize_in q l Hq). lia.
      + rewrite show_expr_exists in Hlen. cbn [flat_map] in Hlen. rewrite !app_length in Hlen. cbn [length] in Hlen. lia.
  Qed.

  Lemma atom_of x : (esize x <= n)%nat -> safe_expr okf rp x = true -> (length (show_atom pf x) <= m)%nat ->
    atom_ok (show_atom pf x) x /\ head_ok (show_atom pf x).
  Proof.
    intros Hj Hs Hlen. unfold show_atom in *. destruct (is_logic x) eqn:El.
    - split; [|eexists; eexists; split; reflexivity].
      apply atom_paren; try assumption. cbn [length] in Hlen. rewrite app_length in Hlen. cbn [length] in Hlen. lia.
    - split; [apply atom_nl; try assumption; lia|apply (show_expr_head pf okf Hfl rp x); assumption].
  Qed.

  Lemma expr_or_level e rest : (esize e <= S n)%nat -> safe_expr okf rp e = true -> (length (show_expr pf e) <= m)%nat ->
    fl_close rest = true -> eor (show_expr pf e ++ rest) = POk rest e.
  Proof.
    intros Hj Hs Hlen Hr. destruct (is_logic e) eqn:El.
    - destruct e as [| |op l r| | |]; try discriminate El. pose proof Hs as Hs'. rewrite safe_expr_S in Hs'.
      rewrite esize_bin in Hj. rewrite show_expr_bin in *.
      destruct op; try discriminate El; cbn [is_cmp] in Hs'; apply andb_true_iff in Hs'; destruct Hs' as [Hl Hr'];
        rewrite !app_length in Hlen; cbn [length show_binop] in Hlen;
        destruct (atom_of l ltac:(lia) Hl ltac:(lia)) as (A1 & _); destruct (atom_of r ltac:(lia) Hr' ltac:(lia)) as (A2 & H2).
      + exact (or_single _ _ (and_pair _ _ _ _ A1 A2 H2) rest Hr).
      + exact (or_pair _ _ _ _ (and_single _ _ A1) (and_single _ _ A2) H2 rest Hr).
    - exact (or_single _ _ (and_single _ _ (atom_nl e Hj El Hs Hlen)) rest Hr).
  Qed.
End Level.

Lemma path_fuel_S m bs :
  path_fuel (S m) bs =
  palt (ws_around inner_path bs) (fun _ =>
        ws_around (fun b =>
          pdo (r1, _) <- pchar 63 b;
          pdo (r2, _) <- pchar 40 (multispace0 r1);
          pdo (r3, e) <- expr_or_fuel m false (multispace0 r2);
          pdo (r4, _) <- pchar 41 (multispace0 r3);
          POk r4 (PFilter e)) bs).
Proof. reflexivity. Qed.
Lemma expr_or_fuel_S m rp bs : expr_or_fuel (S m) rp bs = expr_or rp (path_fuel m) (expr_or_fuel m rp) bs.
Proof. reflexivity. Qed.

Lemma filter_open m x r3 e r4 : expr_or_fuel m false (multispace0 x) = POk r3 e -> pchar 41 (multispace0 r3) = POk r4 tt ->
  path_fuel (S m) (63 :: 40 :: x) = POk (multispace0 r4) (PFilter e).
Proof.
  intros H1 H2. rewrite path_fuel_S.
  assert (W : ws_around inner_path (63 :: 40 :: x) = PErr) by reflexivity. rewrite W. cbn [palt].
  unfold ws_around. change (multispace0 (63 :: 40 :: x)) with (63 :: 40 :: x).
  change (pchar 63 (63 :: 40 :: x)) with (POk (40 :: x) tt). cbn [pbind].
  change (multispace0 (40 :: x)) with (40 :: x). change (pchar 40 (40 :: x)) with (POk x tt). cbn [pbind].
  rewrite H1. cbn [pbind]. rewrite H2. reflexivity.
Qed.

(* ---------------------------------------------------------------- all levels *)
Section Main.
  Variable pf : N -> list N.
  Variable okf : N -> bool.
  Hypothesis Hfl : forall b, okf b = true -> path_float_reads_back pf b.

  Definition expr_level (n m : nat) : Prop :=
    forall rp e rest, (esize e <= n)%nat -> safe_expr okf rp e = true -> (length (show_expr pf e) < m)%nat -> fl_close rest = true ->
    expr_or_fuel m rp (show_expr pf e ++ rest) = POk rest e.
  Definition step_level (n m : nat) : Prop :=
    forall p rest, (psize p <= n)%nat -> safe_step okf p = true -> (length (show_path pf p) < m)%nat -> name_follow rest = true ->
    path_fuel m (show_path pf p ++ rest) = POk (multispace0 rest) p.

  Lemma esize_pos e : (1 <= esize e)%nat.
  Proof. destruct e; cbn [esize]; lia. Qed.
  Lemma psize_pos p : (1 <= psize p)%nat.
  Proof. destruct p; cbn [psize psize_with]; lia. Qed.

  (* every size n, every parser fuel m above the length of the printed text *)
  Lemma levels : forall n m, expr_level n m /\ step_level n m.
  Proof.
    induction n as [|n IH]; intros m.
    { split; [intros rp e rest Hn|intros p rest Hn]; [pose proof (esize_pos e)|pose proof (psize_pos p)]; lia. }
    destruct m as [|m]; [split; intros ? ? ? ? ? ?; lia|].
    destruct (IH m) as [HP HQ].
    split.
    - intros rp e rest Hn Hs Hlen Hr. rewrite expr_or_fuel_S.
      apply (expr_or_level pf okf Hfl n m HP HQ rp e rest Hn Hs ltac:(lia) Hr).
    - intros p rest Hn Hs Hlen Hr. pose proof Hs as Hs'. rewrite safe_step_S in Hs'.
      destruct p as [| | | |s|s|s|l|e|e];
        try (rewrite (show_path_inner pf _ Hs'), path_fuel_S, (ws_inner_path_rt _ rest Hs' Hr); reflexivity);
        try discriminate Hs'.
      rewrite show_path_filter in *. rewrite !app_length in Hlen. cbn [length] in Hlen.
      rewrite <- !app_assoc. cbn [app]. rewrite psize_filter in Hn.
      apply (filter_open m _ (41 :: rest)); [|reflexivity].
      rewrite (head_ok_ms _ _ (show_expr_head pf okf Hfl false e Hs')).
      apply (HP false e (41 :: rest) ltac:(lia) Hs' ltac:(lia) eq_refl).
  Qed.
End Main.

(* ---------------------------------------------------------------- the whole path *)
Fixpoint inner_prefix (l : list path) : list path :=
  match l with p :: r => if safe_inner p then p :: inner_prefix r else [] | [] => [] end.
Fixpoint inner_suffix (l : list path) : list path :=
  match l with p :: r => if safe_inner p then inner_suffix r else l | [] => [] end.
Lemma inner_prefix_safe l : forallb safe_inner (inner_prefix l) = true.
Proof. induction l as [|p r IH]; [reflexivity|]. cbn [inner_prefix]. destruct (safe_inner p) eqn:E; [cbn [forallb]; rewrite E, IH; reflexivity|reflexivity]. Qed.

Lemma pdouble_dot b x : is_digit b = false -> pdouble (46 :: b :: x) = PErr.
Proof.
  intros H. unfold pdouble, float_parts. cbn [take_digits]. change (is_digit 46) with false. cbv iota. cbn [rev].
  cbn [take_digits]. rewrite H. cbn [rev]. cbv iota. cbn [pbind pmap palt]. reflexivity.
Qed.
Lemma path_value_dot b x : is_digit b = false -> path_value (46 :: b :: x) = PErr.
Proof. intros H. unfold path_value. rewrite (pdouble_dot b x H). reflexivity. Qed.
Lemma path_fuel_nil m : path_fuel m [] = PErr.
Proof. destruct m; reflexivity. Qed.

Lemma json_path_predicate fuel bs e : multispace0 bs = bs -> expr_or_fuel fuel true bs = POk [] e ->
  json_path_fuel fuel bs = POk [] [PPredicate e].
Proof. intros M H. unfold json_path_fuel. cbv zeta. unfold ws_around. rewrite !M, H. reflexivity. Qed.
Lemma json_path_rooted fuel x r' l : expr_or_fuel fuel true (36 :: x) = PErr ->
  many0 (path_fuel fuel) (S (length x)) x [] = POk r' l -> multispace0 r' = [] ->
  json_path_fuel fuel (36 :: x) = POk [] (PRoot :: l).
Proof.
  intros H1 H2 H3. unfold json_path_fuel. cbv zeta. unfold ws_around.
  assert (M : multispace0 (36 :: x) = 36 :: x) by reflexivity. rewrite !M, H1. cbn [pmap pbind palt].
  change (pre_path (36 :: x)) with (POk x PRoot). cbv iota beta. rewrite H2. cbn [pbind]. rewrite H3. reflexivity.
Qed.
Lemma json_path_unrooted fuel bs r' l : multispace0 bs = bs -> expr_or_fuel fuel true bs = PErr -> pre_path bs = PErr ->
  many0 (path_fuel fuel) (S (length bs)) bs [] = POk r' l -> multispace0 r' = [] ->
  json_path_fuel fuel bs = POk [] l.
Proof.
  intros M H1 Hp H2 H3. unfold json_path_fuel. cbv zeta. unfold ws_around.
  rewrite !M, H1. cbn [pmap pbind palt]. rewrite Hp. cbv iota beta. rewrite H2. cbn [pbind]. rewrite H3. reflexivity.
Qed.
Lemma pred_fails k T : expr_atom true (path_fuel k) (expr_or_fuel k true) T = PErr -> expr_or_fuel (S k) true T = PErr.
Proof. intros H. rewrite expr_or_fuel_S. unfold expr_or, expr_and, separated_list1. rewrite H. reflexivity. Qed.

Lemma forallb_cons {A} (g : A -> bool) a l : forallb g (a :: l) = g a && forallb g l.
Proof. reflexivity. Qed.
Lemma flat_map_cons {A B} (g : A -> list B) a l : flat_map g (a :: l) = g a ++ flat_map g l.
Proof. reflexivity. Qed.
Lemma flat_map_single {A B} (g : A -> list B) a : flat_map g [a] = g a.
Proof. cbn [flat_map]. apply app_nil_r. Qed.

Section Top.
  Variable pf : N -> list N.
  Variable okf : N -> bool.
  Hypothesis Hfl : forall b, okf b = true -> path_float_reads_back pf b.

  Lemma show_split l : forallb (safe_step okf) l = true ->
    flat_map (show_path pf) l = flat_map show_inner (inner_prefix l) ++ flat_map (show_path pf) (inner_suffix l)
    /\ steps_follow (flat_map (show_path pf) (inner_suffix l)) = true
    /\ (flat_map (show_path pf) (inner_suffix l) = [] \/ exists x, flat_map (show_path pf) (inner_suffix l) = 63 :: x).
  Proof.
    induction l as [|p r IH]; [intros _; split; [reflexivity|split; [reflexivity|left; reflexivity]]|].
    cbn [forallb]. intros H. apply andb_true_iff in H. destruct H as [Hp Hr]. cbn [inner_prefix inner_suffix].
    destruct (safe_inner p) eqn:E.
    - destruct (IH Hr) as (I1 & I2 & I3). cbn [flat_map]. rewrite I1, (show_path_inner pf p E), <- app_assoc.
      split; [reflexivity|split; assumption].
    - rewrite safe_step_S in Hp. destruct p; try (rewrite E in Hp; discriminate Hp); try discriminate E.
      cbn [flat_map app]. rewrite show_path_filter. split; [reflexivity|]. split; [reflexivity|right; eexists; reflexivity].
  Qed.

  Lemma atom_fails_rooted pr er l : forallb (safe_step okf) l = true ->
    expr_atom true pr er (36 :: flat_map (show_path pf) l) = PErr.
  Proof.
    intros HF. destruct (show_split l HF) as (S1 & S2 & S3). rewrite S1.
    set (rest := flat_map (show_path pf) (inner_suffix l)) in *.
    destruct (inner_steps_rt (inner_prefix l) rest (inner_prefix_safe l) S2) as (r' & E & M).
    assert (A : ws_around (inner_expr true) (36 :: flat_map show_inner (inner_prefix l) ++ rest)
                = POk (multispace0 rest) (EPaths (PRoot :: inner_prefix l))).
    { unfold ws_around. change (multispace0 (36 :: ?x)) with (36 :: x).
      unfold inner_expr, expr_paths. cbn [pchar]. change (36 =? 36) with true. cbv iota. cbn [pmap pbind palt].
      rewrite E. cbn [pmap pbind palt]. rewrite M. reflexivity. }
    unfold expr_atom. rewrite A. cbn [pbind].
    destruct S3 as [-> | (x & ->)]; reflexivity.
  Qed.

  Definition first_shape (T : list N) : Prop :=
    (exists c x, T = c :: x /\ (c = 58 \/ c = 91 \/ c = 63)) \/ (exists b x, T = 46 :: b :: x /\ is_digit b = false).
  Lemma first_shape_facts T pr er : first_shape T ->
    multispace0 T = T /\ expr_atom true pr er T = PErr /\ pre_path T = PErr.
  Proof.
    intros [(c & x & -> & [-> | [-> | ->]]) | (b & x & -> & Hb)]; try (repeat split; reflexivity).
    split; [reflexivity|]. split; [|reflexivity].
    assert (W : ws_around (inner_expr true) (46 :: b :: x) = PErr).
    { unfold ws_around. change (multispace0 (46 :: b :: x)) with (46 :: b :: x). unfold inner_expr.
      change (expr_paths true (46 :: b :: x)) with (@PErr (list path)). rewrite (path_value_dot b x Hb). reflexivity. }
    unfold expr_atom. rewrite W. reflexivity.
  Qed.
  Lemma first_text p l X : safe_step okf p = true -> first_ok (p :: l) = true -> first_shape (show_path pf p ++ X).
  Proof.
    intros Hp Hf. rewrite safe_step_S in Hp.
    destruct p as [| | | |s|s|s|a|e|e]; try discriminate Hp; try rewrite (show_path_inner pf _ Hp); cbn [show_inner].
    - right. exists 42, X. split; reflexivity.
    - left. eexists; eexists; split; [reflexivity|tauto].
    - destruct (name_first s Hp) as (b & r & -> & _). cbn [first_ok] in Hf. apply negb_true_iff in Hf.
      right. exists b, (r ++ X). split; [reflexivity|exact Hf].
    - left. eexists; eexists; split; [reflexivity|tauto].
    - left. eexists; eexists; split; [reflexivity|tauto].
    - left. eexists; eexists; split; [reflexivity|tauto].
    - rewrite show_path_filter. left. eexists; eexists; split; [reflexivity|tauto].
  Qed.

  Lemma top_steps fuel l : forallb (safe_step okf) l = true -> (length (flat_map (show_path pf) l) < fuel)%nat ->
    exists r', many0 (path_fuel fuel) (S (length (flat_map (show_path pf) l))) (flat_map (show_path pf) l) [] = POk r' l
               /\ multispace0 r' = [].
  Proof.
    intros HF Hlen.
    assert (G : Forall (fun p => safe_step okf p = true /\ (length (show_path pf p) < fuel)%nat) l).
    { apply Forall_forall. intros p Hp. split; [rewrite forallb_forall in HF; apply HF; exact Hp|].
      pose proof (flat_len_each (show_path pf) l p Hp). lia. }
    pose proof (many0_rt (path_fuel fuel) (show_path pf)
                  (fun p => safe_step okf p = true /\ (length (show_path pf p) < fuel)%nat) name_follow) as W.
    specialize (W (fun a r Ha Hr => proj2 (levels pf okf Hfl (psize a) fuel) a r (le_n _) (proj1 Ha) (proj2 Ha) Hr)).
    specialize (W (fun a x Ha => step_head_facts pf okf a x (proj1 Ha))).
    specialize (W [] l (S (length (flat_map (show_path pf) l))) eq_refl (path_fuel_nil fuel) (path_fuel_nil fuel) G).
    rewrite app_nil_r in W. apply W.
    pose proof (flat_len_ge (show_path pf) _ l (fun a Ha => proj2 (proj2 (step_head_facts pf okf a [] (proj1 Ha)))) G). lia.
  Qed.

  Lemma safe_path_unrooted p l : p <> PRoot -> (forall e, p <> PPredicate e) ->
    safe_path okf (p :: l) = forallb (safe_step okf) (p :: l) && first_ok (p :: l).
  Proof. intros H1 H2. destruct p; try reflexivity; [contradiction H1; reflexivity|]. destruct (H2 e eq_refl). Qed.

  Lemma top_unrooted p l : safe_path okf (p :: l) = true -> p <> PRoot -> (forall e, p <> PPredicate e) ->
    json_path_fuel (S (length (flat_map (show_path pf) (p :: l)))) (flat_map (show_path pf) (p :: l)) = POk [] (p :: l).
  Proof.
    intros H N1 N2. rewrite (safe_path_unrooted p l N1 N2) in H. apply andb_true_iff in H. destruct H as [HF Hfo].
    pose proof HF as HF'. rewrite forallb_cons in HF'. apply andb_true_iff in HF'. destruct HF' as [Hp _].
    remember (flat_map (show_path pf) (p :: l)) as T eqn:ET.
    assert (Sh : first_shape T) by (subst T; rewrite flat_map_cons; apply (first_text p l _ Hp Hfo)).
    destruct (first_shape_facts T (path_fuel (length T)) (expr_or_fuel (length T) true) Sh) as (M & A & P).
    destruct (top_steps (S (length T)) (p :: l) HF ltac:(rewrite <- ET; lia)) as (r' & E & Mr). rewrite <- ET in E.
    exact (json_path_unrooted _ T r' (p :: l) M (pred_fails _ T A) P E Mr).
  Qed.

  Lemma top_rooted l : forallb (safe_step okf) l = true ->
    json_path_fuel (S (length (36 :: flat_map (show_path pf) l))) (36 :: flat_map (show_path pf) l) = POk [] (PRoot :: l).
  Proof.
    intros Hs. remember (flat_map (show_path pf) l) as X eqn:EX.
    destruct (top_steps (S (length (36 :: X))) l Hs ltac:(rewrite <- EX; cbn [length]; lia)) as (r' & E & Mr). rewrite <- EX in E.
    apply (json_path_rooted _ X r' l); [|exact E|exact Mr].
    apply pred_fails. rewrite EX. apply atom_fails_rooted. exact Hs.
  Qed.

  Lemma top_predicate e : safe_expr okf true e = true ->
    json_path_fuel (S (length (show_expr pf e))) (show_expr pf e) = POk [] [PPredicate e].
  Proof.
    intros Hs. apply json_path_predicate.
    - rewrite <- (app_nil_r (show_expr pf e)). apply head_ok_ms. apply (show_expr_head pf okf Hfl true e Hs).
    - pose proof (proj1 (levels pf okf Hfl (esize e) (S (length (show_expr pf e)))) true e [] (le_n _) Hs ltac:(lia) eq_refl) as L.
      rewrite app_nil_r in L. exact L.
  Qed.

  Lemma show_json_root l : show_json_path pf (PRoot :: l) = 36 :: flat_map (show_path pf) l.
  Proof. reflexivity. Qed.
  Lemma show_json_pred e : show_json_path pf [PPredicate e] = show_expr pf e.
  Proof. unfold show_json_path. rewrite flat_map_single. apply show_path_predicate. Qed.
  Lemma safe_path_root l : safe_path okf (PRoot :: l) = forallb (safe_step okf) l.
  Proof. reflexivity. Qed.
  Lemma safe_path_pred e : safe_path okf [PPredicate e] = safe_expr okf true e.
  Proof. reflexivity. Qed.
  Lemma safe_path_pred_more e q l : safe_path okf (PPredicate e :: q :: l) = false.
  Proof. reflexivity. Qed.

  (* print, then parse: the identity on every safe path, of ANY length and nesting depth (the printer and the class are
     structural; the parser's fuel S (length text) is shown sufficient along the way, see `levels`) *)
  Theorem path_roundtrip_floats ps : safe_path okf ps = true -> parse_json_path (show_json_path pf ps) = Ok ps.
  Proof.
    intros Hs. unfold parse_json_path.
    enough (E : json_path_fuel (S (length (show_json_path pf ps))) (show_json_path pf ps) = POk [] ps) by (rewrite E; reflexivity).
    destruct ps as [|p l]; [reflexivity|].
    destruct p as [| | | |s|s|s|a|e|e]; try (apply top_unrooted; [exact Hs|discriminate|discriminate]).
    - rewrite show_json_root. rewrite safe_path_root in Hs. apply top_rooted. exact Hs.
    - destruct l as [|q l'].
      + rewrite show_json_pred. rewrite safe_path_pred in Hs. apply top_predicate. exact Hs.
      + rewrite safe_path_pred_more in Hs. discriminate Hs.
  Qed.
End Top.

(* C09: print, then parse — float-free paths, with no assumption about the float printer *)
Theorem path_roundtrip pf ps : safe_path no_floats ps = true -> parse_json_path (show_json_path pf ps) = Ok ps.
Proof. apply (path_roundtrip_floats pf no_floats). intros b H. discriminate H. Qed.

(* ---------------------------------------------------------------- floats: the hypothesis is satisfiable and follows from facts about
   nom's number readers *)
Definition int_declines (p : pres Z) : Prop :=
  match p with POk r _ => not_float_tail r = false | PErr => True | _ => False end.
Lemma path_float_from_double pf b :
  (exists d r, pf b = d :: r /\ (is_digit d = true \/ d = 45)) ->
  (forall rest, val_follow rest = true ->
     int_declines (pu64 (pf b ++ rest)) /\ int_declines (pi64 (pf b ++ rest)) /\ pdouble (pf b ++ rest) = POk rest b) ->
  path_float_reads_back pf b.
Proof.
  intros (d & r & E & Hd) H. split.
  - exists d, r. split; [exact E|]. destruct Hd as [Hd | ->]; [|repeat split; discriminate].
    split; [apply digit_not_space; exact Hd|]. unfold is_digit in Hd. apply andb_true_iff in Hd. destruct Hd as [H1 H2].
    apply N.leb_le in H1. apply N.leb_le in H2. split; lia.
  - intros rest Hr. destruct (H rest Hr) as (U & I & D). rewrite E in *. cbn [app] in *.
    destruct Hd as [Hd | ->].
    + rewrite (path_value_digit d _ Hd), D.
      destruct (pu64 (d :: r ++ rest)) as [r1 v1| | |]; cbn [int_declines] in U; try contradiction; cbn [pbind]; try rewrite U;
        (destruct (pi64 (d :: r ++ rest)) as [r2 v2| | |]; cbn [int_declines] in I; try contradiction; cbn [pbind]; try rewrite I; reflexivity).
    + rewrite path_value_minus, D.
      destruct (pi64 (45 :: r ++ rest)) as [r2 v2| | |]; cbn [int_declines] in I; try contradiction; cbn [pbind]; try rewrite I; reflexivity.
Qed.

(* 1.5 printed as "1.5" reads back as the double 0x3FF8000000000000 *)
Example path_float_reads_back_example : path_float_reads_back (fun _ => [49; 46; 53]) 4609434218613702656.
Proof.
  apply path_float_from_double; [exists 49, [46; 53]; split; [reflexivity|left; reflexivity]|].
  intros rest Hr. destruct rest as [|c r]; [vm_compute; repeat split; reflexivity|].
  cbn [val_follow hd_in] in Hr. apply existsb_eqb_in in Hr. destruct Hr as [<- | [<- | []]]; vm_compute; repeat split; reflexivity.
Qed.

(* after the fix of `-inf`: negative infinity (0xFFF0000000000000, what a literal such as -1e999 overflows to) printed as
   "-inf" -- which is what the crate's Display prints -- reads back: u64, i64 and nom's double all decline (double reads
   `inf` only without a sign) and the alternative added by the fix takes it.  Before the fix this hypothesis was
   unsatisfiable for this float (no alternative of the literal reader produced it). *)
Lemma path_float_reads_back_neg_inf pf : pf F_NEG_INF = [45; 105; 110; 102] -> path_float_reads_back pf F_NEG_INF.
Proof.
  intros E. split.
  - exists 45, [105; 110; 102]. split; [exact E|]. repeat split; discriminate.
  - intros rest Hr. rewrite E. destruct rest as [|c r]; [vm_compute; reflexivity|].
    cbn [val_follow hd_in] in Hr. apply existsb_eqb_in in Hr. destruct Hr as [<- | [<- | []]]; vm_compute; reflexivity.
Qed.
Example path_float_reads_back_neg_inf_example : path_float_reads_back (fun _ => [45; 105; 110; 102]) F_NEG_INF.
Proof. apply path_float_reads_back_neg_inf. reflexivity. Qed.
(* the printer of the extracted model (Render.float_placeholder prints the non-finite values the way the crate does: inf,
   -inf, NaN) satisfies the hypothesis on all three non-finite doubles *)
Lemma path_float_reads_back_nonfinite b : nonfinite_floats b = true -> path_float_reads_back float_placeholder b.
Proof.
  unfold nonfinite_floats. intros H. apply orb_true_iff in H. destruct H as [H|H]; [apply orb_true_iff in H; destruct H as [H|H]|];
    apply N.eqb_eq in H; subst b.
  - split; [exists 105, [110; 102]; repeat split; discriminate|].
    intros rest Hr. destruct rest as [|c r]; [vm_compute; reflexivity|].
    cbn [val_follow hd_in] in Hr. apply existsb_eqb_in in Hr. destruct Hr as [<- | [<- | []]]; vm_compute; reflexivity.
  - apply path_float_reads_back_neg_inf. vm_compute. reflexivity.
  - split; [exists 78, [97; 78]; repeat split; discriminate|].
    intros rest Hr. destruct rest as [|c r]; [vm_compute; reflexivity|].
    cbn [val_follow hd_in] in Hr. apply existsb_eqb_in in Hr. destruct Hr as [<- | [<- | []]]; vm_compute; reflexivity.
Qed.
(* the literal reader on its own: `-inf` in any letter case, and what follows is left alone (`-infinity` leaves `inity`,
   which no caller accepts; `- inf` is not a literal) *)
Example path_value_neg_inf_examples :
  path_value [45; 105; 110; 102] = POk [] (PVNum (NFloat F_NEG_INF)) /\
  path_value [45; 73; 110; 70; 41] = POk [41] (PVNum (NFloat F_NEG_INF)) /\
  path_value [45; 105; 110; 102; 105; 110; 105; 116; 121] = POk [105; 110; 105; 116; 121] (PVNum (NFloat F_NEG_INF)) /\
  path_value [45; 32; 105; 110; 102] = PErr /\
  path_value [45; 110; 97; 110] = PErr /\
  path_value [43; 105; 110; 102] = PErr /\
  path_value [105; 110; 102] = POk [] (PVNum (NFloat F_INF)).
Proof. vm_compute. repeat split; reflexivity. Qed.

(* the offset produced by `last - n` is an i32 (what I32.saturating_neg_in_range said of the old formula) *)
Lemma last_minus_i32 v n : last_minus v = Some n -> (-2147483648 <= n <= 2147483647)%Z.
Proof.
  unfold last_minus. destruct (v =? - two63)%Z; [discriminate|].
  destruct ((-2147483648 <=? - v) && (- v <=? 2147483647))%Z eqn:E; [|discriminate].
  intros H. inversion H. subst n. apply andb_true_iff in E. destruct E as [E1 E2]. apply Z.leb_le in E1. apply Z.leb_le in E2. lia.
Qed.

(* ---------------------------------------------------------------- outside the class: what fails, and why it is excluded *)
(* 1. before the fix of `last - n` (i32 then saturating_neg): the accepted path $[last+-2147483648] printed as
      $[last-2147483648], and the old reader took only `last` from it, leaving "-2147483648]" (so the path was rejected);
      the fixed reader takes all of it. *)
Definition pindex_old (bs : list N) : pres index :=
  palt (pmap IIndex (pi32 bs)) (fun _ =>
  palt (pdo (r1, _) <- ptag_no_case LAST bs;
        pdo (r2, _) <- pchar 45 (multispace0 r1);
        pdo (r3, v) <- pi32 (multispace0 r2);
        POk r3 (ILast (saturating_neg v))) (fun _ =>
  palt (pdo (r1, _) <- ptag_no_case LAST bs;
        pdo (r2, _) <- pchar 43 (multispace0 r1);
        pdo (r3, v) <- pi32 (multispace0 r2);
        POk r3 (ILast v)) (fun _ =>
        pmap (fun _ => ILast 0) (ptag_no_case LAST bs)))).
Lemma last_min_old_refuted :
  pindex_old [108; 97; 115; 116; 43; 45; 50; 49; 52; 55; 52; 56; 51; 54; 52; 56; 93] = POk [93] (ILast (-2147483648)) /\
  show_index (ILast (-2147483648)) = [108; 97; 115; 116; 45; 50; 49; 52; 55; 52; 56; 51; 54; 52; 56] /\
  pindex_old (show_index (ILast (-2147483648)) ++ [93]) = POk [45; 50; 49; 52; 55; 52; 56; 51; 54; 52; 56; 93] (ILast 0) /\
  pindex (show_index (ILast (-2147483648)) ++ [93]) = POk [93] (ILast (-2147483648)).
Proof. vm_compute. repeat split; reflexivity. Qed.

(* 2. an un-rooted path whose first name starts with a digit: ."5e" is accepted, prints as .5e, and that is rejected
      (the predicate alternative runs nom's double on ".5e", whose cut(digit1) after the 'e' is a Failure); the same
      name after `$` is fine. Hence first_ok. *)
Lemma unrooted_digit_name_refuted pf :
  parse_json_path [46; 34; 53; 101; 34] = Ok [PDotField [53; 101]] /\
  show_json_path pf [PDotField [53; 101]] = [46; 53; 101] /\
  parse_json_path (show_json_path pf [PDotField [53; 101]]) = Err EOther /\
  parse_json_path (show_json_path pf [PRoot; PDotField [53; 101]]) = Ok [PRoot; PDotField [53; 101]].
Proof. vm_compute. repeat split; reflexivity. Qed.

(* 3. a non-negative Int64 literal exists only for a text with an explicit '+'; it prints without the sign and comes
      back as UInt64 (numerically equal; Number's PartialEq in the crate calls them equal). Hence NInt z needs z < 0. *)
Lemma plus_signed_literal_reparsed_unsigned pf :
  let text := [36; 63; 40; 64; 46; 97; 32; 61; 61; 32; 43; 53; 41] in       (* $?(@.a == +5) *)
  let ast k := [PRoot; PFilter (EBin OEq (EPaths [PCurrent; PDotField [97]]) (EValue (PVNum k)))] in
  parse_json_path text = Ok (ast (NInt 5)) /\
  parse_json_path (show_json_path pf (ast (NInt 5))) = Ok (ast (NUInt 5)).
Proof. vm_compute. split; reflexivity. Qed.

(* 4. names that need quoting are outside the class by definition: ."a b" is accepted and prints as .a b *)
Lemma name_needing_quotes_refuted pf :
  parse_json_path [36; 46; 34; 97; 32; 98; 34] = Ok [PRoot; PDotField [97; 32; 98]] /\
  parse_json_path (show_json_path pf [PRoot; PDotField [97; 32; 98]]) = Err EOther.
Proof. vm_compute. split; reflexivity. Qed.

(* 5. before the fix of `-inf` (crate e1187a7) the literal reader had no alternative between `double` and the string
      literal: `-1e999` was read as negative infinity, whose printed text `-inf` the reader declined; the fixed reader
      takes it.  (This is why negative infinity could not be let into the class before, and can now:
      path_float_reads_back_neg_inf.) *)
Definition path_value_old (bs : list N) : pres pvalue :=
  palt (pmap (fun _ => PVNull) (ptag [110; 117; 108; 108] bs)) (fun _ =>
  palt (pmap (fun _ => PVBool true) (ptag [116; 114; 117; 101] bs)) (fun _ =>
  palt (pmap (fun _ => PVBool false) (ptag [102; 97; 108; 115; 101] bs)) (fun _ =>
  palt (pdo (r, v) <- pu64 bs; if not_float_tail r then POk r (PVNum (NUInt (Z.to_N v))) else PErr) (fun _ =>
  palt (pdo (r, v) <- pi64 bs; if not_float_tail r then POk r (PVNum (NInt v)) else PErr) (fun _ =>
  palt (pmap (fun b => PVNum (NFloat b)) (pdouble bs)) (fun _ =>
        pmap PVStr (pstring bs))))))).
Lemma neg_inf_old_refuted :
  path_value_old [45; 49; 101; 57; 57; 57] = POk [] (PVNum (NFloat F_NEG_INF)) /\
  show_pvalue float_placeholder (PVNum (NFloat F_NEG_INF)) = [45; 105; 110; 102] /\
  path_value_old [45; 105; 110; 102] = PErr /\
  path_value [45; 105; 110; 102] = POk [] (PVNum (NFloat F_NEG_INF)) /\
  (forall bs, hd 0 bs <> 45 -> path_value bs = path_value_old bs).
Proof.
  split; [vm_compute; reflexivity|]. split; [vm_compute; reflexivity|]. split; [vm_compute; reflexivity|]. split; [vm_compute; reflexivity|].
  intros bs H. unfold path_value, path_value_old. destruct bs as [|c r]; [reflexivity|]. cbn [hd] in H. apply N.eqb_neq in H.
  cbn [pchar]. rewrite H. reflexivity.
Qed.
