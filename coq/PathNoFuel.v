(* PathNoFuel.v — the JSONPath evaluators have no recursion budget (C08 / C15).
   filter_expr / filter_expr_w recurse on the STRUCTURE of the expression (PathSem.v, SelWalk.v), so every path — however
   many && / || terms, however deep the parentheses, exists(...) and filters inside filters — is evaluated in full.  The
   model error `EFuel` ("recursion fuel exhausted") is therefore never an answer of the tree evaluator on any document, nor of
   the byte selector on ANY buffer (the entry-word reader below it, rd_words, answers a failed read, never EFuel), nor of the
   public functions including their JSON-text branch. *)
From Coq Require Import List NArith ZArith Bool Lia.
Import ListNotations.
From JB Require Import Constants Bytes Utf8 Num Value Codec TreeOps JsonText Path PathInd PathSem Dispatch Walk CompareWalk SelWalk.
From JB Require Extra10.
Open Scope N_scope.
Set Default Timeout 60.

Definition nf {A} (r : res A) : Prop := r <> Err EFuel.

Lemma nf_ok {A} (a : A) : nf (Ok a).
Proof. discriminate. Qed.
Lemma nf_panic {A} : nf (@Panic A).
Proof. discriminate. Qed.
Lemma nf_other {A} : nf (@Err A EOther).
Proof. discriminate. Qed.
Lemma nf_bind {A B} (r : res A) (f : A -> res B) : nf r -> (forall a, nf (f a)) -> nf (bind r f).
Proof. intros Hr Hf. destruct r as [a|e|]; cbn [bind]; [apply Hf| |discriminate]. intros E. apply Hr. injection E as ->. reflexivity. Qed.
Lemma nf_of_option {A} (o : option A) : nf (of_option EOther o).
Proof. destruct o; discriminate. Qed.
Lemma nf_or_panic {A} (o : option A) : nf (or_panic o).
Proof. destruct o; discriminate. Qed.
Lemma nf_if {A} (c : bool) (a b : res A) : nf a -> nf b -> nf (if c then a else b).
Proof. destruct c; auto. Qed.

Lemma flat_map_res_nf {A B} (f : A -> res (list B)) l : (forall x, nf (f x)) -> nf (flat_map_res f l).
Proof.
  intros Hf. induction l as [|x l IH]; cbn [flat_map_res]; [apply nf_ok|].
  apply nf_bind; [apply Hf|]. intros a. apply nf_bind; [exact IH|]. intros b. apply nf_ok.
Qed.
Lemma filter_res_nf {A} (f : A -> res bool) l : (forall x, nf (f x)) -> nf (filter_res f l).
Proof.
  intros Hf. induction l as [|x l IH]; cbn [filter_res]; [apply nf_ok|].
  apply nf_bind; [apply Hf|]. intros a. apply nf_bind; [exact IH|]. intros b. apply nf_ok.
Qed.
Lemma exists_res_nf {A} (f : A -> res bool) l : (forall x, nf (f x)) -> nf (exists_res f l).
Proof.
  intros Hf. induction l as [|x l IH]; cbn [exists_res]; [apply nf_ok|].
  apply nf_bind; [apply Hf|]. intros a. destruct a; [apply nf_ok|exact IH].
Qed.
Lemma compare_value_nf op a b : nf (compare_value op a b).
Proof. destruct op; cbn [compare_value]; discriminate. Qed.
Lemma compare_all_nf op (a b : list pvalue) : nf (exists_res (fun x => exists_res (fun y => compare_value op x y) b) a).
Proof. apply exists_res_nf. intros x. apply exists_res_nf. intros y. apply compare_value_nf. Qed.

(* ---------------------------------------------------------------- the tree evaluator *)
Lemma select_step_nf p v : nf (select_step p v).
Proof. unfold select_step. destruct (is_container v); destruct p; discriminate. Qed.
Lemma walk_operand_nf : forall ps fr, nf (walk_operand ps fr).
Proof.
  induction ps as [|p ps IH]; intros fr; cbn [walk_operand]; [apply nf_ok|].
  assert (S : nf (do fr' <- flat_map_res (select_step p) fr; walk_operand ps fr')).
  { apply nf_bind; [apply flat_map_res_nf; intros x; apply select_step_nf|]. intros a. apply IH. }
  destruct p; try exact S; apply nf_panic.
Qed.
Lemma expr_values_nf root pos e : nf (expr_values root pos e).
Proof.
  destruct e; cbn [expr_values]; try apply nf_panic; [|apply nf_ok].
  apply nf_bind; [apply walk_operand_nf|]. intros a. apply nf_ok.
Qed.
Lemma walk_nf fe : forall ps fr, steps_all (fun e => forall pos, nf (fe pos e)) ps -> nf (walk fe ps fr).
Proof.
  induction ps as [|p ps IH]; intros fr H; cbn [walk]; [apply nf_ok|].
  apply steps_all_cons in H. destruct H as [Hp H].
  assert (S : nf (do fr' <- flat_map_res (select_step p) fr; walk fe ps fr')).
  { apply nf_bind; [apply flat_map_res_nf; intros x; apply select_step_nf|]. intros a. apply IH. exact H. }
  assert (F : forall e, In e (step_exprs p) -> nf (do fr' <- filter_res (fun pos => fe pos e) fr; walk fe ps fr')).
  { intros e He. apply nf_bind; [apply filter_res_nf; intros x; apply (Hp e He)|]. intros a. apply IH. exact H. }
  destruct p; try exact S; try (apply F; left; reflexivity); apply IH; exact H.
Qed.
Lemma find_positions_with_nf fe root cur ps : steps_all (fun e => forall pos, nf (fe pos e)) ps -> nf (find_positions_with fe root cur ps).
Proof.
  intros H. unfold find_positions_with. apply nf_bind; [|intros a; apply walk_nf; exact H].
  destruct ps as [|[] ?]; try apply nf_ok. destruct cur; [apply nf_ok|apply nf_panic].
Qed.
Theorem filter_expr_not_fuel root : forall e pos, filter_expr root pos e <> Err EFuel.
Proof.
  induction e as [ps IH|v|op l r IHl IHr|op y IHy|op l r IHl IHr|ps IH] using expr_ind_steps; intros pos; cbn [filter_expr];
    try apply nf_other.
  - assert (C : nf (do a <- expr_values root pos l; do b <- expr_values root pos r;
                    exists_res (fun x => exists_res (fun y => compare_value op x y) b) a)).
    { apply nf_bind; [apply expr_values_nf|]. intros a. apply nf_bind; [apply expr_values_nf|]. intros b. apply compare_all_nf. }
    destruct op; try exact C;
      (apply nf_bind; [apply IHl|]; intros a; apply nf_bind; [apply IHr|]; intros b; apply nf_ok).
  - apply nf_bind; [apply find_positions_with_nf; exact IH|]. intros a. apply nf_ok.
Qed.
Theorem find_positions_not_fuel root cur ps : find_positions root cur ps <> Err EFuel.
Proof. apply find_positions_with_nf. apply steps_all_intro. intros e pos. apply filter_expr_not_fuel. Qed.

Theorem select_t_not_fuel root ps m buf : select_t root ps m buf <> Err EFuel.
Proof. unfold select_t. apply nf_bind; [apply find_positions_not_fuel|]. intros items. destruct (is_predicate ps); apply nf_ok. Qed.
Theorem exists_t_not_fuel root ps : exists_t root ps <> Err EFuel.
Proof.
  unfold exists_t. destruct (is_predicate ps); [apply nf_ok|]. apply nf_bind; [apply find_positions_not_fuel|]. intros; apply nf_ok.
Qed.
Theorem predicate_match_t_not_fuel root ps : predicate_match_t root ps <> Err EFuel.
Proof.
  unfold predicate_match_t. destruct (negb (is_predicate ps)); [discriminate|].
  apply nf_bind; [apply find_positions_not_fuel|]. intros; apply nf_ok.
Qed.

(* ---------------------------------------------------------------- the byte selector, on ANY buffer *)
Section AnyBuffer.
  Variable bs : list N.

  Lemma hdr_at_nf off : nf (hdr_at bs off).
  Proof.
    unfold hdr_at. apply nf_bind; [unfold from_ok; destruct (off <=? lenN bs); discriminate|]. intros _. unfold rd. apply nf_of_option.
  Qed.
  Lemma rd_words_res_nf len joff : nf (rd_words_res bs len joff).
  Proof. unfold rd_words_res. apply nf_of_option. Qed.
  Lemma slice_p_nf off len : nf (slice_p bs off len).
  Proof. unfold slice_p. apply nf_or_panic. Qed.

  Lemma select_object_values_w_nf off : nf (select_object_values_w bs off).
  Proof.
    unfold select_object_values_w. apply nf_bind; [apply hdr_at_nf|]. intros h. cbv zeta. apply nf_if; [apply nf_ok|].
    apply nf_bind; [apply rd_words_res_nf|]. intros kws. apply nf_bind; [apply rd_words_res_nf|]. intros vws. apply nf_ok.
  Qed.
  Lemma select_array_values_w_nf off len : nf (select_array_values_w bs off len).
  Proof.
    unfold select_array_values_w. apply nf_bind; [apply hdr_at_nf|]. intros h. apply nf_if; [apply nf_ok|]. cbv zeta.
    apply nf_bind; [apply rd_words_res_nf|]. intros vws. apply nf_ok.
  Qed.
  Lemma name_scan_nf name : forall kws i off found, nf (name_scan bs name kws i off found).
  Proof.
    induction kws as [|kw r IH]; intros i off found; cbn [name_scan]; [apply nf_ok|]. cbv zeta.
    apply nf_if; [apply IH|]. apply nf_bind; [unfold from_ok; destruct (off <=? lenN bs); discriminate|]. intros _.
    destruct (slice bs off (je_len kw)); [apply IH|apply nf_other].
  Qed.
  Lemma select_by_name_w_nf off name : nf (select_by_name_w bs off name).
  Proof.
    unfold select_by_name_w. apply nf_bind; [apply hdr_at_nf|]. intros h. cbv zeta. apply nf_if; [apply nf_ok|].
    apply nf_bind; [apply rd_words_res_nf|]. intros kws. apply nf_bind; [apply rd_words_res_nf|]. intros vws.
    apply nf_bind; [apply name_scan_nf|]. intros [voff found]. destruct found; apply nf_ok.
  Qed.
  Lemma pick_indices_nf ws offs : forall idxs, nf (pick_indices ws offs idxs).
  Proof.
    induction idxs as [|k r IH]; cbn [pick_indices]; [apply nf_ok|].
    destruct (nth_opt offs k); [|apply nf_panic]. destruct (nth_opt ws k); [|apply nf_panic].
    apply nf_bind; [exact IH|]. intros rest. apply nf_ok.
  Qed.
  Lemma select_by_indices_w_nf off ixs : nf (select_by_indices_w bs off ixs).
  Proof.
    unfold select_by_indices_w. apply nf_bind; [apply hdr_at_nf|]. intros h. cbv zeta. apply nf_if; [apply nf_ok|].
    apply nf_if; [apply nf_ok|]. apply nf_bind; [apply rd_words_res_nf|]. intros ws. apply pick_indices_nf.
  Qed.
  Lemma step_pos_w_nf p pos : nf (step_pos_w bs p pos).
  Proof.
    destruct pos as [off len|ty off len]; cbn [step_pos_w].
    - destruct p; cbn [select_path_w]; try apply nf_panic.
      + apply select_object_values_w_nf.
      + apply select_array_values_w_nf.
      + apply select_by_name_w_nf.
      + apply select_by_name_w_nf.
      + apply select_by_name_w_nf.
      + apply select_by_indices_w_nf.
    - destruct p; apply nf_ok.
  Qed.
  Lemma walk_operand_w_nf : forall ps fr, nf (walk_operand_w bs ps fr).
  Proof.
    induction ps as [|p ps IH]; intros fr; cbn [walk_operand_w]; [apply nf_ok|].
    assert (S : nf (do fr' <- flat_map_res (step_pos_w bs p) fr; walk_operand_w bs ps fr')).
    { apply nf_bind; [apply flat_map_res_nf; intros x; apply step_pos_w_nf|]. intros a. apply IH. }
    destruct p; try exact S; apply nf_panic.
  Qed.
  Lemma pvalues_of_nf : forall poses, nf (pvalues_of bs poses).
  Proof.
    induction poses as [|pos r IH]; cbn [pvalues_of]; [apply nf_ok|]. destruct pos as [off len|ty off len]; [exact IH|].
    apply nf_bind; [|intros v; apply nf_bind; [exact IH|intros vs; apply nf_ok]].
    repeat (apply nf_if; [try apply nf_ok|]); try apply nf_panic.
    - apply nf_bind; [apply slice_p_nf|]. intros p. apply nf_bind; [apply Extra10.num_decode_not_fuel|]. intros n. apply nf_ok.
    - apply nf_bind; [apply slice_p_nf|]. intros p. apply nf_ok.
  Qed.
  Lemma expr_values_w_nf pos e : nf (expr_values_w bs pos e).
  Proof.
    destruct e; cbn [expr_values_w]; try apply nf_panic; [|apply nf_ok].
    apply nf_bind; [apply walk_operand_w_nf|]. intros a. apply pvalues_of_nf.
  Qed.
  Lemma walk_w_nf fe : forall ps fr, steps_all (fun e => forall pos, nf (fe pos e)) ps -> nf (walk_w bs fe ps fr).
  Proof.
    induction ps as [|p ps IH]; intros fr H; cbn [walk_w]; [apply nf_ok|].
    apply steps_all_cons in H. destruct H as [Hp H].
    assert (S : nf (do fr' <- flat_map_res (step_pos_w bs p) fr; walk_w bs fe ps fr')).
    { apply nf_bind; [apply flat_map_res_nf; intros x; apply step_pos_w_nf|]. intros a. apply IH. exact H. }
    assert (F : forall e, In e (step_exprs p) -> nf (do fr' <- filter_res (fun pos => fe pos e) fr; walk_w bs fe ps fr')).
    { intros e He. apply nf_bind; [apply filter_res_nf; intros x; apply (Hp e He)|]. intros a. apply IH. exact H. }
    destruct p; try exact S; try (apply F; left; reflexivity); apply IH; exact H.
  Qed.
  Lemma find_positions_with_w_nf fe cur ps : steps_all (fun e => forall pos, nf (fe pos e)) ps -> nf (find_positions_with_w fe bs cur ps).
  Proof.
    intros H. unfold find_positions_with_w. apply nf_bind; [|intros a; apply walk_w_nf; exact H].
    destruct ps as [|[] ?]; try apply nf_ok. destruct cur; [apply nf_ok|apply nf_panic].
  Qed.
  Theorem filter_expr_w_not_fuel : forall e pos, filter_expr_w bs pos e <> Err EFuel.
  Proof.
    induction e as [ps IH|v|op l r IHl IHr|op y IHy|op l r IHl IHr|ps IH] using expr_ind_steps; intros pos; cbn [filter_expr_w];
      try apply nf_other.
    - assert (C : nf (do a <- expr_values_w bs pos l; do b <- expr_values_w bs pos r;
                      exists_res (fun x => exists_res (fun y => compare_value op x y) b) a)).
      { apply nf_bind; [apply expr_values_w_nf|]. intros a. apply nf_bind; [apply expr_values_w_nf|]. intros b. apply compare_all_nf. }
      destruct op; try exact C;
        (apply nf_bind; [apply IHl|]; intros a; apply nf_bind; [apply IHr|]; intros b; apply nf_ok).
    - apply nf_bind; [apply find_positions_with_w_nf; exact IH|]. intros a. apply nf_ok.
  Qed.
  Theorem find_positions_w_not_fuel cur ps : find_positions_w bs cur ps <> Err EFuel.
  Proof. apply find_positions_with_w_nf. apply steps_all_intro. intros e pos. apply filter_expr_w_not_fuel. Qed.

  Lemma build_values_w_nf : forall poses data offs, nf (build_values_w bs poses data offs).
  Proof.
    induction poses as [|pos r IH]; intros data offs; cbn [build_values_w]; [apply nf_ok|]. destruct pos as [off len|ty off len].
    - apply nf_bind; [apply slice_p_nf|]. intros p. apply IH.
    - cbv zeta. apply nf_bind; [|intros d; apply IH].
      apply nf_if; [|apply nf_ok]. apply nf_bind; [apply slice_p_nf|]. intros p. apply nf_ok.
  Qed.
  Lemma array_loop_w_nf : forall poses data joff, nf (array_loop_w bs poses data joff).
  Proof.
    induction poses as [|pos r IH]; intros data joff; cbn [array_loop_w]; [apply nf_ok|].
    apply nf_bind; [|intros [d j]; apply IH]. destruct pos as [off len|ty off len].
    - apply nf_bind; [apply slice_p_nf|]. intros p. apply nf_ok.
    - apply nf_bind; [apply nf_if; [apply slice_p_nf|apply nf_ok]|]. intros p. apply nf_ok.
  Qed.
  Lemma build_scalar_array_w_nf poses data : nf (build_scalar_array_w bs poses data).
  Proof. unfold build_scalar_array_w. cbv zeta. apply nf_bind; [apply array_loop_w_nf|]. intros d. apply nf_ok. Qed.

  Theorem select_w_not_fuel ps m buf : select_w bs ps m buf <> Err EFuel.
  Proof.
    unfold select_w. apply nf_bind; [apply find_positions_w_not_fuel|]. intros poses. apply nf_if; [apply nf_ok|].
    destruct m; try apply build_values_w_nf; try apply build_scalar_array_w_nf.
    apply nf_if; [apply build_scalar_array_w_nf|apply build_values_w_nf].
  Qed.
  Theorem sel_exists_w_not_fuel ps : sel_exists_w bs ps <> Err EFuel.
  Proof.
    unfold sel_exists_w. apply nf_if; [apply nf_ok|]. apply nf_bind; [apply find_positions_w_not_fuel|]. intros; apply nf_ok.
  Qed.
  Theorem sel_predicate_match_w_not_fuel ps : sel_predicate_match_w bs ps <> Err EFuel.
  Proof.
    unfold sel_predicate_match_w. apply nf_if; [discriminate|]. apply nf_bind; [apply find_positions_w_not_fuel|]. intros; apply nf_ok.
  Qed.
End AnyBuffer.

(* ---------------------------------------------------------------- the public functions, on ANY argument (JSONB or text) *)
Theorem get_by_path_gen_w_not_fuel m bs ps buf : get_by_path_gen_w m bs ps buf <> Err EFuel.
Proof.
  unfold get_by_path_gen_w. destruct (is_jsonb bs); [apply select_w_not_fuel|].
  destruct (parse_value bs); [apply select_w_not_fuel|discriminate|discriminate].
Qed.
Theorem path_exists_w_not_fuel bs ps : path_exists_w bs ps <> Err EFuel.
Proof.
  unfold path_exists_w. destruct (is_jsonb bs); [apply sel_exists_w_not_fuel|].
  destruct (parse_value bs); [apply sel_exists_w_not_fuel|discriminate|discriminate].
Qed.
Theorem path_match_w_not_fuel bs ps : path_match_w bs ps <> Err EFuel.
Proof.
  unfold path_match_w. destruct (is_jsonb bs); [apply sel_predicate_match_w_not_fuel|].
  apply nf_bind; [apply Extra10.parse_value_not_fuel|]. intros v. apply sel_predicate_match_w_not_fuel.
Qed.

(* not vacuous: a filter of 70 `||` terms of which only the last holds — the evaluation the crate performs; both evaluators
   select the item (a recursion budget of 64 levels answered "fuel" here) *)
Fixpoint or_chain (n : nat) (last : expr) : expr :=
  match n with O => last | S k => EBin OOr (or_chain k (EBin OEq (EValue (PVNum (NUInt 1))) (EValue (PVNum (NUInt 2))))) last end.
Example long_chain_is_evaluated :
  let e := or_chain 70 (EBin OEq (EValue (PVNum (NUInt 1))) (EValue (PVNum (NUInt 1)))) in
  find_positions (VNum (NUInt 5)) None [PRoot; PFilter e] = Ok [VNum (NUInt 5)] /\
  select_w (enc (VNum (NUInt 5))) [PRoot; PFilter e] MAll [] = Ok (enc (VNum (NUInt 5)), [10]) /\
  select_t (VNum (NUInt 5)) [PRoot; PFilter e] MAll [] = Ok (enc (VNum (NUInt 5)), [10]).
Proof. vm_compute. repeat split; reflexivity. Qed.
