(* Num.v — model of src/number.rs: the Number type, its compact codec, its views and its order.
   Floats are carried as their 64-bit pattern.  Executable definitions only. *)
From Coq Require Import List NArith ZArith Bool Lia.
Import ListNotations.
From JB Require Import Constants Bytes.
Open Scope N_scope.

Inductive num := NInt (z : Z) | NUInt (n : N) | NFloat (bits : N).

Definition two63 : Z := 9223372036854775808%Z.
Definition two64 : N := 18446744073709551616.
Definition num_in_range (x : num) : bool :=
  match x with
  | NInt z => ((- two63 <=? z) && (z <? two63))%Z
  | NUInt n => n <? two64
  | NFloat b => b <? two64
  end.

(* ---- IEEE-754 binary64 bit patterns ---- *)
Definition two52 : N := 4503599627370496.
Definition f_sign (b : N) : bool := 9223372036854775808 <=? b.           (* bit 63 *)
Definition f_exp (b : N) : N := (b / two52) mod 2048.
Definition f_man (b : N) : N := b mod two52.
Definition f_is_nan (b : N) : bool := (f_exp b =? 2047) && negb (f_man b =? 0).
Definition f_is_inf (b : N) : bool := (f_exp b =? 2047) && (f_man b =? 0).
Definition F_NAN : N := 9221120237041090560.       (* 0x7FF8000000000000 = f64::NAN *)
Definition F_INF : N := 9218868437227405312.       (* 0x7FF0000000000000 *)
Definition F_NEG_INF : N := 18442240474082181120.  (* 0xFFF0000000000000 *)

(* exact value of a finite double as an integer multiple of 2^-1074 *)
Definition f_scaled (b : N) : Z :=
  let m := f_man b in let e := f_exp b in
  let mag := if e =? 0 then Z.of_N m else (Z.of_N (two52 + m) * 2 ^ (Z.of_N e - 1))%Z in
  if f_sign b then (- mag)%Z else mag.

(* the extended line on which all numbers live: value * 2^1074, plus infinities and NaN (greatest) *)
Inductive ext := ENegInf | EFin (z : Z) | EPosInf | ENaN.
Definition ext_rank (e : ext) : Z := match e with ENegInf => 0 | EFin _ => 1 | EPosInf => 2 | ENaN => 3 end%Z.
Definition ext_cmp (a b : ext) : comparison :=
  match a, b with
  | EFin x, EFin y => Z.compare x y
  | _, _ => Z.compare (ext_rank a) (ext_rank b)
  end.
Definition two1074 : Z := (2 ^ 1074)%Z.
Definition f_ext (b : N) : ext :=
  if f_is_nan b then ENaN
  else if f_is_inf b then (if f_sign b then ENegInf else EPosInf)
  else EFin (f_scaled b).
Definition scaled (x : num) : ext :=
  match x with
  | NInt z => EFin (z * two1074)%Z
  | NUInt n => EFin (Z.of_N n * two1074)%Z
  | NFloat b => f_ext b
  end.

(* Ord for Number (after the fix: exact comparison by mathematical value, NaN = NaN greatest) *)
Definition num_cmp (a b : num) : comparison := ext_cmp (scaled a) (scaled b).
Definition num_eqb (a b : num) : bool := match num_cmp a b with Eq => true | _ => false end.

(* the pre-fix order (kept for the refutation theorem): mixed int/float pairs went through `as f64` *)
(* `x as f64` for an integer: round to nearest, ties to even *)
Definition round_ne (z : Z) : N :=
  if (z =? 0)%Z then 0 else
  let s := (z <? 0)%Z in
  let a := Z.to_N (Z.abs z) in
  let k := N.log2 a in
  let '(q, k') :=
    if k <=? 52 then (a * 2 ^ (52 - k), k)
    else
      let sh := k - 52 in
      let q := a / 2 ^ sh in let r := a mod 2 ^ sh in let half := 2 ^ (sh - 1) in
      let q1 := if (half <? r) || ((r =? half) && N.odd q) then q + 1 else q in
      if q1 =? 2 * two52 then (two52, k + 1) else (q1, k) in
  (if s then 9223372036854775808 else 0) + (1023 + k') * two52 + (q - two52).

Definition as_f64 (x : num) : N :=
  match x with NInt z => round_ne z | NUInt n => round_ne (Z.of_N n) | NFloat b => b end.
Definition as_i64 (x : num) : option Z :=
  match x with
  | NInt z => Some z
  | NUInt n => if (Z.of_N n <? two63)%Z then Some (Z.of_N n) else None
  | NFloat _ => None
  end.
Definition as_u64 (x : num) : option N :=
  match x with
  | NInt z => if (0 <=? z)%Z then Some (Z.to_N z) else None
  | NUInt n => Some n
  | NFloat _ => None
  end.

(* OrderedFloat<f64>::cmp on bit patterns: NaN greatest and equal to itself, -0.0 = 0.0 *)
Definition of_cmp (a b : N) : comparison := ext_cmp (f_ext a) (f_ext b).
Definition num_cmp_old (a b : num) : comparison :=
  match a, b with
  | NInt x, NInt y => Z.compare x y
  | NUInt x, NUInt y => N.compare x y
  | NInt x, NUInt y => if (x <? 0)%Z then Lt else Z.compare x (Z.of_N y)
  | NUInt x, NInt y => if (y <? 0)%Z then Gt else Z.compare (Z.of_N x) y
  | _, _ => of_cmp (as_f64 a) (as_f64 b)
  end.

(* ---- compact codec ---- *)
Definition twos (k : nat) (z : Z) : N := Z.to_N (z mod 2 ^ (8 * Z.of_nat k))%Z.
Definition sext (k : nat) (n : N) : Z :=
  let m := (2 ^ (8 * Z.of_nat k))%Z in
  if (Z.of_N n <? m / 2)%Z then Z.of_N n else (Z.of_N n - m)%Z.

(* the range tests and the widths written by Number::compact_encode: generated from number.rs (gen/Constants.v, CE_...) *)
Definition int_width (z : Z) : nat :=
  if CE_INT_FITS1 z then CE_INT_W1
  else if CE_INT_FITS2 z then CE_INT_W2
  else if CE_INT_FITS3 z then CE_INT_W3
  else CE_INT_W4.
Definition uint_width (n : N) : nat :=
  if CE_UINT_FITS1 n then CE_UINT_W1 else if CE_UINT_FITS2 n then CE_UINT_W2 else if CE_UINT_FITS3 n then CE_UINT_W3 else CE_UINT_W4.

Definition compact_encode (x : num) : list N :=
  match x with
  | NInt z =>
      if CE_INT_ZERO z then [NUMBER_ZERO]
      else let w := int_width z in NUMBER_INT :: be_bytes w (twos w z)
  | NUInt n =>
      if CE_UINT_ZERO n then [NUMBER_ZERO]
      else let w := uint_width n in NUMBER_UINT :: be_bytes w n
  | NFloat b =>
      if f_is_nan b then [NUMBER_NAN]
      else if f_is_inf b then (if f_sign b then [NUMBER_NEG_INF] else [NUMBER_INF])
      else NUMBER_FLOAT :: be_bytes 8 b
  end.

Definition width_ok (len : nat) : bool :=
  match len with 1 | 2 | 4 | 8 => true | _ => false end%nat.

(* Number::decode after the fix: empty input, trailing bytes after the one-byte forms and a float
   payload that is not 8 bytes are errors (they were a panic, accepted, and a panic). *)
Definition num_decode (bs : list N) : res num :=
  match bs with
  | [] => Err EOther
  | ty :: rest =>
      let len := length rest in
      let one (x : num) := match len with O => Ok x | _ => Err EOther end in
      if ty =? NUMBER_ZERO then one (NUInt 0)
      else if ty =? NUMBER_NAN then one (NFloat F_NAN)
      else if ty =? NUMBER_INF then one (NFloat F_INF)
      else if ty =? NUMBER_NEG_INF then one (NFloat F_NEG_INF)
      else if ty =? NUMBER_INT then
        (if width_ok len then Ok (NInt (sext len (rd_be rest 0))) else Err EOther)
      else if ty =? NUMBER_UINT then
        (if width_ok len then Ok (NUInt (rd_be rest 0)) else Err EOther)
      else if ty =? NUMBER_FLOAT then
        (match len with 8%nat => Ok (NFloat (rd_be rest 0)) | _ => Err EOther end)
      else Err EOther
  end.

(* the code before the fix, for the refutation theorems *)
Definition num_decode_old (bs : list N) : res num :=
  match bs with
  | [] => Panic
  | ty :: rest =>
      let len := length rest in
      if ty =? NUMBER_ZERO then Ok (NUInt 0)
      else if ty =? NUMBER_NAN then Ok (NFloat F_NAN)
      else if ty =? NUMBER_INF then Ok (NFloat F_INF)
      else if ty =? NUMBER_NEG_INF then Ok (NFloat F_NEG_INF)
      else if ty =? NUMBER_INT then
        (if width_ok len then Ok (NInt (sext len (rd_be rest 0))) else Err EOther)
      else if ty =? NUMBER_UINT then
        (if width_ok len then Ok (NUInt (rd_be rest 0)) else Err EOther)
      else if ty =? NUMBER_FLOAT then
        (match len with 8%nat => Ok (NFloat (rd_be rest 0)) | _ => Panic end)
      else Err EOther
  end.

(* what a decode/encode round trip does to the representation: Int64 0 becomes UInt64 0 and every
   NaN becomes the canonical NaN; everything else is unchanged *)
Definition normalise_num (x : num) : num :=
  match x with
  | NInt z => if (z =? 0)%Z then NUInt 0 else x
  | NUInt _ => x
  | NFloat b => if f_is_nan b then NFloat F_NAN else x
  end.

(* ---- decimal printing of integers (itoa) ---- *)
Fixpoint digits_fuel (fuel : nat) (n : N) (acc : list N) : list N :=
  match fuel with
  | O => acc
  | S f => let acc' := (48 + n mod 10) :: acc in
           if n <? 10 then acc' else digits_fuel f (n / 10) acc'
  end.
Definition dec_digits (n : N) : list N := digits_fuel 40 n [].
Definition dec_Z (z : Z) : list N :=
  if (z <? 0)%Z then 45 :: dec_digits (Z.to_N (- z)) else dec_digits (Z.to_N z).
