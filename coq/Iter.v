(* Iter.v — offset-faithful models of src/iterator.rs: ArrayIterator, ObjectKeyIterator, ObjectEntryIterator.
   An iterator is used by a `for` loop (possibly left early by `return` / `break`): the model is a fold with early
   exit over the items the iterator produces, lazily, one `next()` at a time, on the same buffer with the same offsets.
     read_u32(..).ok()?      -> the iterator ends (the loop ends normally)
     &self.value[a..b]       -> Panic when out of bounds
     keys.as_mut().unwrap()  -> Panic when fill_keys failed
   Loops driven by a count read from the buffer recurse on fuel = S (length bs): every iteration reads an entry word at
   a strictly larger offset, so the loop ends by a failed read before the fuel does.
   The initial offsets and the entry-word strides are NOT written here: they are the expressions the translator reads from
   iterator.rs into gen/Constants.v (names ITER_...), so a changed offset in the source changes this model and breaks IterProofs.v.
   Executable definitions only. *)
From Coq Require Import List NArith ZArith Bool.
Import ListNotations.
From JB Require Import Constants Bytes Value Codec Walk.
Open Scope N_scope.

(* JEntry::decode_jentry: (type_code, length) *)
Definition decode_je (w : N) : je := (je_type w, je_len w).

Section Folds.
  Context {St R : Type}.
  Variable bs : list N.

  (* ---- ArrayIterator: items (jentry, payload slice) ---- *)
  Section Arr.
    Variable step : St -> je -> list N -> res (St + R).
    Variable fin : St -> res R.
    Fixpoint arr_fold (fuel : nat) (idx len joff voff : N) (s : St) : res R :=
      match fuel with O => Err EFuel | S f =>
      if len <=? idx then fin s else
      match read_u32 bs joff with
      | None => fin s
      | Some w =>
          match slice bs voff (je_len w) with
          | None => Panic
          | Some p =>
              do o <- step s (decode_je w) p;
              match o with
              | inl s' => arr_fold f (idx + 1) len (joff + ITER_ARR_JSTEP) (voff + je_len w) s'
              | inr r => Ok r
              end
          end
      end end.
  End Arr.

  (* ---- ObjectKeyIterator: items key ---- *)
  Section Keys.
    Variable step : St -> list N -> res (St + R).
    Variable fin : St -> res R.
    Fixpoint keys_fold (fuel : nat) (idx len joff koff : N) (s : St) : res R :=
      match fuel with O => Err EFuel | S f =>
      if len <=? idx then fin s else
      match read_u32 bs joff with
      | None => fin s
      | Some w =>
          match slice bs koff (je_len w) with
          | None => Panic
          | Some k =>
              do o <- step s k;
              match o with
              | inl s' => keys_fold f (idx + 1) len (joff + ITER_KEYS_JSTEP) (koff + je_len w) s'
              | inr r => Ok r
              end
          end
      end end.
  End Keys.

  (* ---- ObjectEntryIterator: items (key, value jentry, value payload slice) ---- *)
  Section Entries.
    Variable step : St -> list N -> je -> list N -> res (St + R).
    Variable fin : St -> res R.
    Fixpoint ent_loop (kws : list N) (koff joff voff : N) (s : St) : res R :=
      match kws with
      | [] => fin s
      | kw :: r =>
          match slice bs koff (je_len kw) with
          | None => Panic
          | Some key =>
              match read_u32 bs joff with
              | None => fin s
              | Some vw =>
                  match slice bs voff (je_len vw) with
                  | None => Panic
                  | Some val =>
                      do o <- step s key (decode_je vw) val;
                      match o with
                      | inl s' => ent_loop r (koff + je_len kw) (joff + ITER_ENT_JSTEP) (voff + je_len vw) s'
                      | inr x => Ok x
                      end
                  end
              end
          end
      end.
  End Entries.
End Folds.

(* `for (jentry, item) in iterate_array(value, header)` *)
Definition iterate_array {St R} (bs : list N) (hdr : N) (step : St -> je -> list N -> res (St + R)) (fin : St -> res R)
  (s : St) : res R :=
  let len := hdr_len hdr in arr_fold bs step fin (S (length bs)) 0 len (ITER_ARR_JOFF len) (ITER_ARR_VOFF len) s.
(* `for key in iteate_object_keys(value, header)` *)
Definition iterate_object_keys {St R} (bs : list N) (hdr : N) (step : St -> list N -> res (St + R)) (fin : St -> res R)
  (s : St) : res R :=
  let len := hdr_len hdr in keys_fold bs step fin (S (length bs)) 0 len (ITER_KEYS_JOFF len) (ITER_KEYS_KOFF len) s.
(* `for (key, jentry, item) in iterate_object_entries(value, header)`: the first next() reads all key entry words
   (fill_keys); a failed read there leaves keys = None and the unwrap panics *)
Definition iterate_object_entries {St R} (bs : list N) (hdr : N)
  (step : St -> list N -> je -> list N -> res (St + R)) (fin : St -> res R) (s : St) : res R :=
  let len := hdr_len hdr in
  match rd_words (S (length bs)) bs 0 len (ITER_ENT_JOFF len) with
  | None => Panic
  | Some kws => ent_loop bs step fin kws (ITER_ENT_KOFF len) (ITER_ENT_JOFF len + ITER_FILL_JSTEP * len)
                         (ITER_ENT_VOFF len + sum_je_len kws) s
  end.

(* loops that consume every item: the items as a list *)
Definition arr_items (bs : list N) (hdr : N) : res (list (je * list N)) :=
  iterate_array bs hdr (fun acc j p => Ok (inl (acc ++ [(j, p)]))) (fun acc => Ok acc) [].
Definition obj_items (bs : list N) (hdr : N) : res (list (list N * (je * list N))) :=
  iterate_object_entries bs hdr (fun acc k j p => Ok (inl (acc ++ [(k, (j, p))]))) (fun acc => Ok acc) [].
Definition key_items (bs : list N) (hdr : N) : res (list (list N)) :=
  iterate_object_keys bs hdr (fun acc k => Ok (inl (acc ++ [k]))) (fun acc => Ok acc) [].
