(* ComparableWalk.v — offset-faithful model of convert_to_comparable and its helpers (functions.rs): one buffer,
   absolute offsets, output appended to `buf`; a failed read_u32 stops the function that made it (what it had
   appended stays), an index expression out of bounds is a Panic.  Executable definitions only. *)
From Coq Require Import List NArith ZArith Bool.
Import ListNotations.
From JB Require Import Constants Bytes Utf8 Num Value Codec JsonText Order CmpKey Walk CompareWalk.
Open Scope N_scope.

Section Inner.
  Variable V : list N.
  (* scalar_convert_to_comparable at smaller fuel: depth, entry word, payload offset, buffer *)
  Variable sc : N -> N -> N -> list N -> res (list N).

  Fixpoint arr_cmp_loop (fuel : nat) (depth i len base joff voff : N) (buf : list N) : res (list N) :=
    match fuel with O => Ok buf | S f =>
    if i <? len then
      match read_u32 V (base + joff) with
      | None => Ok buf
      | Some w =>
          do _ <- from_ok V (base + voff);
          do buf' <- sc depth w (base + voff) buf;
          arr_cmp_loop f depth (i + 1) len base (joff + CVA_JSTEP) (voff + je_len w) buf'
      end
    else Ok buf
    end.
  Definition array_cmp_w (depth len base : N) (buf : list N) : res (list N) :=
    (* initial offsets and stride: generated from array_convert_to_comparable (gen/Constants.v, CVA_...) *)
    arr_cmp_loop (S (length V)) depth 0 len base CVA_JOFF (CVA_VOFF len) buf.

  Fixpoint obj_cmp_loop (kws : list N) (depth base joff koff voff : N) (buf : list N) : res (list N) :=
    match kws with
    | [] => Ok buf
    | kw :: r =>
        do _ <- from_ok V (base + koff);
        do buf1 <- sc depth kw (base + koff) buf;
        match read_u32 V (base + joff) with
        | None => Ok buf1
        | Some w =>
            do _ <- from_ok V (base + voff);
            do buf2 <- sc depth w (base + voff) buf1;
            obj_cmp_loop r depth base (joff + CVO_JSTEP2) (koff + je_len kw) (voff + je_len w) buf2
        end
    end.
  Definition object_cmp_w (depth len base : N) (buf : list N) : res (list N) :=
    (* generated from object_convert_to_comparable (CVO_...); the first loop advanced jentry_offset by CVO_JSTEP1 per key *)
    match rd_words (S (length V)) V 0 len (base + CVO_JOFF) with
    | None => Ok buf
    | Some kws => obj_cmp_loop kws depth base (CVO_JOFF + CVO_JSTEP1 * len) (CVO_KOFF len) (CVO_VOFF len + sum_je_len kws) buf
    end.
End Inner.

Fixpoint scalar_cmp_w (fuel : nat) (V : list N) (depth w off : N) (buf : list N) : res (list N) :=
  match fuel with O => Ok buf | S f =>
  let buf0 := buf ++ [depth] in
  let ty := je_type w in
  if ty =? CONTAINER_TAG then
    match read_u32 V off with
    | None => Ok buf0
    | Some h =>
        let len := hdr_len h in
        if hdr_type h =? ARRAY_CONTAINER_TAG then
          do _ <- from_ok V (off + CVC_ARR_SKIP);                    (* &value[4..]: generated (CVC_...) *)
          array_cmp_w V (scalar_cmp_w f V) (sat1 depth) len (off + CVC_ARR_SKIP) (buf0 ++ [ARRAY_LEVEL])
        else if hdr_type h =? OBJECT_CONTAINER_TAG then
          do _ <- from_ok V (off + CVC_OBJ_SKIP);
          object_cmp_w V (scalar_cmp_w f V) (sat1 depth) len (off + CVC_OBJ_SKIP) (buf0 ++ [OBJECT_LEVEL])
        else Ok buf0
    end
  else
    let buf1 := buf0 ++ [level_of_tag ty] in
    if ty =? STRING_TAG then
      do s <- slice_p V off (je_len w); Ok (buf1 ++ s)
    else if ty =? NUMBER_TAG then
      do p <- slice_p V off (je_len w);
      match num_decode p with
      | Ok n => Ok (buf1 ++ be_bytes 8 (f64_key (as_f64 n)))
      | _ => Ok buf1
      end
    else Ok buf1
  end.

(* convert_to_comparable, binary branch, depth 0 *)
Definition comparable_b (V : list N) (buf : list N) : res (list N) :=
  let h := match read_u32 V 0 with Some h => h | None => 0 end in
  let fuel := S (length V) in
  if hdr_type h =? SCALAR_CONTAINER_TAG then
    match read_u32 V 4 with
    | None => Ok buf
    | Some w => do _ <- from_ok V 8; scalar_cmp_w fuel V 0 w 8 buf
    end
  else if hdr_type h =? ARRAY_CONTAINER_TAG then
    do _ <- from_ok V 4;
    array_cmp_w V (scalar_cmp_w fuel V) (sat1 0) (hdr_len h) 4 (buf ++ [0; ARRAY_LEVEL])
  else if hdr_type h =? OBJECT_CONTAINER_TAG then
    do _ <- from_ok V 4;
    object_cmp_w V (scalar_cmp_w fuel V) (sat1 0) (hdr_len h) 4 (buf ++ [0; OBJECT_LEVEL])
  else Ok buf.

(* the public function: a JSON text is parsed and re-encoded first; a text that does not parse is copied behind
   depth 0 / INVALID_LEVEL *)
Definition comparable_w (bs : list N) (buf : list N) : res (list N) :=
  if is_jsonb bs then comparable_b bs buf
  else match JsonText.parse_value bs with
       | Ok v => comparable_b (to_vec v) buf
       | Err _ => Ok (buf ++ 0 :: INVALID_LEVEL :: bs)
       | Panic => Panic
       end.
