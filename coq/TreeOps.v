(* TreeOps.v — the tree result of every accessor and editor (the specification side; DESIGN Appendix D).
   Indices are mathematical integers (Z); the i32 arithmetic of the code is treated in I32.v. *)
From Coq Require Import List NArith ZArith Bool Lia.
Import ListNotations.
From JB Require Import Constants Bytes Utf8 Num Value Decimal.
Open Scope N_scope.

(* DOMAIN: KeyPath::Index holds an i32 in the code; here the index is any Z.  Every theorem that quantifies over key paths holds
   for all Z; the code's domain is the part where each index is an i32 (Walk.in_i32), which is all parse_key_paths produces
   (PathI32.parsed_key_path_indices_are_i32).  Outside it the model has answers the code has no input for. *)
Inductive keypath := KIndex (i : Z) | KName (s : list N) | KQuoted (s : list N).

Definition lenZ {A} (l : list A) : Z := Z.of_nat (length l).
(* the index is compared with the length BEFORE it is turned into a unary number: a caller-chosen index (any u64 / i32) never
   becomes a unary nat larger than the list (nth_opt beyond the end is None anyway: WalkProofs.nth_opt_past, get_by_index_t_nth, nthZ_spec) *)
Definition nthZ {A} (l : list A) (i : Z) : option A :=
  if ((i <? 0) || (lenZ l <=? i))%Z then None else nth_opt l (Z.to_nat i).

(* ---- accessors ---- *)
Definition array_length_t (v : value) : option N :=
  match v with VArr l => Some (lenN l) | _ => None end.
Definition get_by_index_t (v : value) (i : N) : option value :=
  match v with VArr l => if lenN l <=? i then None else nth_opt l (N.to_nat i) | _ => None end.

Fixpoint first_ci (name : list N) (l : list (list N * value)) : option value :=
  match l with
  | [] => None
  | (k, x) :: r => if eq_ignore_ascii_case name k then Some x else first_ci name r
  end.
Definition get_by_name_t (v : value) (name : list N) (ignore_case : bool) : option value :=
  match v with
  | VObj o => match assoc_lookup name o with
              | Some x => Some x
              | None => if ignore_case then first_ci name o else None
              end
  | _ => None
  end.

Fixpoint get_by_keypath_t (v : value) (ks : list keypath) : option value :=
  match ks with
  | [] => Some v
  | k :: r =>
      match k, v with
      | KIndex i, VArr l =>
          let len := lenZ l in
          (* the two expressions of the Value branch of get_by_keypath, as generated from the source *)
          if GBK_T_REJECT i len then None
          else match nthZ l (GBK_T_INDEX i len) with
               | Some x => get_by_keypath_t x r
               | None => None
               end
      | KName n, VObj o | KQuoted n, VObj o =>
          match assoc_lookup n o with Some x => get_by_keypath_t x r | None => None end
      | _, _ => None
      end
  end.

Definition object_keys_t (v : value) : option value :=
  match v with VObj o => Some (VArr (map (fun kv => VStr (fst kv)) o)) | _ => None end.
Definition object_each_t (v : value) : option (list (list N * value)) :=
  match v with VObj o => Some o | _ => None end.
Definition array_values_t (v : value) : option (list value) :=
  match v with VArr l => Some l | _ => None end.

Definition type_of_t (v : value) : N :=   (* 0 null 1 boolean 2 number 3 string 4 array 5 object *)
  match v with VNull => 0 | VBool _ => 1 | VNum _ => 2 | VStr _ => 3 | VArr _ => 4 | VObj _ => 5 end.

Definition as_bool_t (v : value) : option bool := match v with VBool b => Some b | _ => None end.
Definition as_number_t (v : value) : option num := match v with VNum n => Some n | _ => None end.
Definition as_str_t (v : value) : option (list N) := match v with VStr s => Some s | _ => None end.
Definition as_i64_t (v : value) : option Z := match v with VNum n => as_i64 n | _ => None end.
Definition as_u64_t (v : value) : option N := match v with VNum n => as_u64 n | _ => None end.
Definition as_f64_t (v : value) : option N := match v with VNum n => Some (as_f64 n) | _ => None end.

Definition to_bool_t (v : value) : option bool :=
  match v with
  | VBool b => Some b
  | VStr s => let l := map ascii_lower s in
              (* str::to_lowercase also maps non-ASCII upper case; neither word can result from that (assumption, DESIGN §7) *)
              if bytes_eqb l [116; 114; 117; 101] then Some true
              else if bytes_eqb l [102; 97; 108; 115; 101] then Some false else None
  | _ => None
  end.

(* str::parse::<i64> / <u64>: optional sign ('+' always, '-' for signed; u64 accepts only '+'), digits, in range *)
Definition all_digits (s : list N) : bool := match s with [] => false | _ => forallb is_digit s end.
Definition parse_int_std (signed : bool) (s : list N) : option Z :=
  let '(neg, ds) := match s with
                    | 43 :: r => (false, r)
                    | 45 :: r => if signed then (true, r) else (false, s)
                    | _ => (false, s) end in
  if all_digits ds then
    let v := digits_val ds 0 in Some (if neg then (- v)%Z else v)
  else None.
Definition to_i64_t (v : value) : option Z :=
  match as_i64_t v with
  | Some z => Some z
  | None =>
      match v with
      | VBool b => Some (if b then 1 else 0)%Z
      | VStr s => match parse_int_std true s with
                  | Some z => if ((- two63 <=? z) && (z <? two63))%Z then Some z else None
                  | None => None end
      | _ => None
      end
  end.
Definition to_u64_t (v : value) : option N :=
  match as_u64_t v with
  | Some n => Some n
  | None =>
      match v with
      | VBool b => Some (if b then 1 else 0)
      | VStr s => match parse_int_std false s with
                  | Some z => if ((0 <=? z) && (z <? Z.of_N two64))%Z then Some (Z.to_N z) else None
                  | None => None end
      | _ => None
      end
  end.

Definition has_key (v : value) (k : list N) : bool :=
  match v with
  | VObj o => match assoc_lookup k o with Some _ => true | None => false end
  | VArr l => existsb (fun x => match x with VStr s => bytes_eqb s k | _ => false end) l
  | _ => false
  end.
Definition exists_all_keys_t (v : value) (ks : list (list N)) : bool :=
  forallb (fun k => utf8_valid k && has_key v k) ks.
Definition exists_any_keys_t (v : value) (ks : list (list N)) : bool :=
  existsb (fun k => utf8_valid k && has_key v k) ks.

Fixpoint all_strings (v : value) : list (list N) :=
  match v with
  | VStr s => [s]
  | VArr l => flat_map all_strings l
  | VObj o => flat_map (fun kv => fst kv :: all_strings (snd kv)) o
  | _ => []
  end.
Fixpoint is_prefix (p s : list N) : bool :=
  match p, s with
  | [], _ => true
  | a :: p', b :: s' => (a =? b) && is_prefix p' s'
  | _ :: _, [] => false
  end.
Definition traverse_check_string_t (v : value) (needle : list N) : bool :=
  existsb (is_prefix needle) (all_strings v).

(* ---- editors ---- *)
Definition concat_t (a b : value) : value :=
  match a, b with
  | VObj l, VObj r => VObj (fold_left (fun acc kv => assoc_insert (fst kv) (snd kv) acc) r l)
  | VArr l, VArr r => VArr (l ++ r)
  | x, VArr r => VArr (x :: r)
  | VArr l, y => VArr (l ++ [y])
  | x, y => VArr [x; y]
  end.

Definition str_is (name : list N) (x : value) : bool :=
  match x with VStr s => bytes_eqb s name | _ => false end.
Definition delete_by_name_t (v : value) (name : list N) : res value :=
  match v with
  | VObj o => Ok (VObj (assoc_remove name o))
  | VArr l => Ok (VArr (filter (fun x => negb (str_is name x)) l))
  | _ => Err EInvalidJsonType
  end.

(* reference formula (the proofs restate the generated DBI_/DKP_/AI_ definitions in this form: I32.v) *)
Definition resolve (i len : Z) : Z := if (i <? 0)%Z then (len + i)%Z else i.
Definition delete_by_index_t (v : value) (i : Z) : res value :=
  match v with
  | VArr l => let j := DBI_T_RESOLVE i (lenZ l) in          (* generated from delete_by_index (text branch) *)
              if DBI_T_KEEP j (lenZ l) then Ok (VArr (remove_nth l (Z.to_nat j))) else Ok v
  | _ => Err EInvalidJsonType
  end.

Fixpoint replace_nth {A} (l : list A) (n : nat) (x : A) : list A :=
  match l, n with
  | [], _ => []
  | _ :: r, O => x :: r
  | y :: r, S n' => y :: replace_nth r n' x
  end.
Definition assoc_replace {V} (k : list N) (x : V) (l : list (list N * V)) : list (list N * V) :=
  map (fun kv => if bytes_eqb k (fst kv) then (fst kv, x) else kv) l.

(* del on a container; None = nothing to do (the input is copied) *)
Fixpoint del_keypath (fuel : nat) (v : value) (ks : list keypath) : option value :=
  match fuel with O => None | S f =>
  match v, ks with
  | VArr l, KIndex i :: r =>
      let len := lenZ l in
      let j := DKP_T_RESOLVE i len in                         (* generated from delete_value_array_by_keypath *)
      if DKP_T_SKIP j len then None
      else match r with
           | [] => Some (VArr (remove_nth l (Z.to_nat j)))
           | _ => match nth_opt l (Z.to_nat j) with
                  | Some x => if is_container x then
                                match del_keypath f x r with
                                | Some x' => Some (VArr (replace_nth l (Z.to_nat j) x'))
                                | None => None end
                              else None
                  | None => None end
           end
  | VObj o, (KName n :: r | KQuoted n :: r) =>
      match r with
      | [] => Some (VObj (assoc_remove n o))
      | _ => match assoc_lookup n o with
             | Some x => if is_container x then
                           match del_keypath f x r with
                           | Some x' => Some (VObj (assoc_replace n x' o))
                           | None => None end
                         else None
             | None => Some v     (* the byte walker rebuilds the same object *)
             end
      end
  | _, _ => None
  end end.
Definition delete_by_keypath_t (v : value) (ks : list keypath) : res value :=
  match v with
  | VArr _ | VObj _ => match del_keypath (S (length ks)) v ks with Some v' => Ok v' | None => Ok v end
  | _ => Err EInvalidJsonType
  end.

Definition clamp (lo hi x : Z) : Z := if (x <? lo)%Z then lo else if (hi <? x)%Z then hi else x.
Definition array_insert_t (v : value) (pos : Z) (x : value) : value :=
  let items := match v with VArr l => l | other => [other] end in
  let len := lenZ items in
  let j := Z.to_nat (AI_CLAMP (AI_RESOLVE pos len) len) in  (* generated from array_insert_jsonb *)
  VArr (firstn j items ++ [x] ++ skipn j items).

Definition object_insert_t (v : value) (k : list N) (x : value) (update : bool) : res value :=
  match v with
  | VObj o =>
      match assoc_lookup k o with
      | Some _ => if update then Ok (VObj (assoc_insert k x o)) else Err EDupKey
      | None => Ok (VObj (assoc_insert k x o))
      end
  | _ => Err EInvalidObject
  end.
Definition mem_key (k : list N) (ks : list (list N)) : bool := existsb (bytes_eqb k) ks.
Definition object_delete_t (v : value) (ks : list (list N)) : res value :=
  match v with
  | VObj o => Ok (VObj (filter (fun kv => negb (mem_key (fst kv) ks)) o))
  | _ => Err EInvalidObject
  end.
Definition object_pick_t (v : value) (ks : list (list N)) : res value :=
  match v with
  | VObj o => Ok (VObj (filter (fun kv => mem_key (fst kv) ks) o))
  | _ => Err EInvalidObject
  end.

Fixpoint strip_nulls_t (v : value) : value :=
  match v with
  | VArr l => VArr (map strip_nulls_t l)
  | VObj o => VObj (filter (fun kv => match snd kv with VNull => false | _ => true end)
                           (map (fun kv => (fst kv, strip_nulls_t (snd kv))) o))
  | _ => v
  end.

Definition build_array_t (vs : list value) : value := VArr vs.
Definition build_object_t (kvs : list (list N * value)) : value := VObj (assoc_of_list kvs).
