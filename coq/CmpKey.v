(* CmpKey.v — convert_to_comparable on trees (view-level mirror) *)
From Coq Require Import List NArith ZArith Bool.
Import ListNotations.
From JB Require Import Constants Bytes Num Value Order.
Open Scope N_scope.

(* order-preserving image of a double: sign bit clear -> flip the sign bit, set -> flip everything *)
Definition f64_image (b : N) : N :=
  if f_sign b then 18446744073709551615 - b else b + 9223372036854775808.

(* after the fix both zeros share the image of 0.0 (compare treats them as equal) *)
Definition f64_key (b : N) : N := f64_image (if b =? 9223372036854775808 then 0 else b).

(* depth is a u8 in the code; after the fix depth + 1 saturates at 255 (it overflowed: a panic in debug builds) *)
Definition sat1 (d : N) : N := if 255 <=? d then 255 else d + 1.
Fixpoint key_entry (depth : N) (v : value) : res (list N) :=
  match v with
  | VArr l =>
      do body <- (fix go (l : list value) : res (list N) :=
                    match l with
                    | [] => Ok []
                    | x :: r => do a <- key_entry (sat1 depth) x; do b <- go r; Ok (a ++ b)
                    end) l;
      Ok (depth :: ARRAY_LEVEL :: body)
  | VObj o =>
      do body <- (fix go (l : list (list N * value)) : res (list N) :=
                    match l with
                    | [] => Ok []
                    | (k, x) :: r =>
                        do a <- key_entry (sat1 depth) x; do b <- go r;
                        Ok ((sat1 depth :: level_of_tag STRING_TAG :: k) ++ a ++ b)
                    end) o;
      Ok (depth :: OBJECT_LEVEL :: body)
  | VStr s => Ok (depth :: level_of_tag STRING_TAG :: s)
  | VNum n => Ok (depth :: level_of_tag NUMBER_TAG :: be_bytes 8 (f64_key (as_f64 n)))
  | other => Ok [depth; level_of_tag (tag_of other)]
  end.
Definition comparable_key (v : value) : res (list N) := key_entry 0 v.
