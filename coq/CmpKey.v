(* CmpKey.v — convert_to_comparable on trees (view-level mirror) *)
From Coq Require Import List NArith ZArith Bool.
Import ListNotations.
From JB Require Import Constants Bytes Num Value Order.
Open Scope N_scope.

(* order-preserving image of a double: sign bit clear -> flip the sign bit, set -> flip everything *)
Definition f64_image (b : N) : N :=
  if f_sign b then 18446744073709551615 - b else b + 9223372036854775808.

(* after the fix both zeros share the image of 0.0 (compare treats them as equal) *)
Definition f64_key (b : N) : N := f64_image (if b =? 9223372036854775808 then 0 else b).

(* depth is a u8 in the code; after the fix depth + 1 saturates at 255 (it overflowed: a panic in debug builds) *)
Definition sat1 (d : N) : N := if 255 <=? d then 255 else d + 1.
Fixpoint key_entry (depth : N) (v : value) : res (list N) :=
  match v with
  | VArr l =>
      do body <- (fix go (l : list value) : res (list N) :=
                    match l with
                    | [] => Ok []
                    | x :: r => do a <- key_entry (sat1 depth) x; do b <- go r; Ok (a ++ b)
                    end) l;
      Ok (depth :: ARRAY_LEVEL :: body)
  | VObj o =>
      do body <- (fix go (l : list (list N * value)) : res (list N) :=
                    match l with
                    | [] => Ok []
                    | (k, x) :: r =>
                        do a <- key_entry (sat1 depth) x; do b <- go r;
                        Ok ((sat1 depth :: level_of_tag STRING_TAG :: k) ++ a ++ b)
                    end) o;
      Ok (depth :: OBJECT_LEVEL :: body)
  | VStr s => Ok (depth :: level_of_tag STRING_TAG :: s)
  | VNum n => Ok (depth :: level_of_tag NUMBER_TAG :: be_bytes 8 (f64_key (as_f64 n)))
  | other => Ok [depth; level_of_tag (tag_of other)]
  end.
Definition comparable_key (v : value) : res (list N) := key_entry 0 v.

(* ---- the class of documents on which the key is PROVED to order as compare does (KeyContainerProofs.v) ----
   key_safe d v: v, sitting at nesting depth d (its key starts with the marker byte d), is outside both collision
   classes:
   * every number is exactly a double (finite, infinite, either zero, the canonical NaN, or an integer a double holds);
   * a non-empty container sits at depth <= 254, so that its members' marker d + 1 does not saturate;
   * every byte of a string at depth d is greater than d: inside the concatenated key a string is followed by the
     marker of its next sibling (d), of a next sibling of an ancestor (< d), or by the end of the key;
   * every byte of an object key in an object at depth d is greater than d + 1: a key is always followed by the
     marker d + 1 of its own value. *)
Definition float_okb (b : N) : bool := (b <? two64) && (negb (f_is_nan b) || (b =? F_NAN)).
Definition num_key_exactb (n : num) : bool :=
  float_okb (as_f64 n) && match num_cmp n (NFloat (as_f64 n)) with Eq => true | _ => false end.
Definition bytes_above (d : N) (s : list N) : bool := forallb (fun c => d <? c) s.
Fixpoint key_safe (d : N) (v : value) : bool :=
  match v with
  | VArr l =>
      match l with [] => true | _ => d <? 255 end &&
      (fix go (l : list value) : bool :=
         match l with [] => true | x :: r => key_safe (d + 1) x && go r end) l
  | VObj o =>
      match o with [] => true | _ => d <? 255 end &&
      (fix go (l : list (list N * value)) : bool :=
         match l with [] => true | (k, x) :: r => bytes_above (d + 1) k && key_safe (d + 1) x && go r end) o
  | VStr s => bytes_above d s
  | VNum n => num_key_exactb n
  | _ => true
  end.
(* a whole document: at top level nothing follows a string, so a top-level string is unrestricted *)
Definition key_safe_doc (v : value) : bool := match v with VStr _ => true | _ => key_safe 0 v end.

(* a uniform sufficient condition, easy to check on a document: every number exact, nesting at most D levels
   (D <= 255), every string byte and key byte greater than D.  Printable text (bytes >= 32) in documents nested at
   most 31 levels deep is inside. *)
Fixpoint key_plain (D : N) (fuel : nat) (v : value) {struct v} : bool :=
  match v with
  | VArr l =>
      match fuel with O => match l with [] => true | _ => false end | S f =>
      (fix go (l : list value) : bool := match l with [] => true | x :: r => key_plain D f x && go r end) l end
  | VObj o =>
      match fuel with O => match o with [] => true | _ => false end | S f =>
      (fix go (l : list (list N * value)) : bool :=
         match l with [] => true | (k, x) :: r => bytes_above D k && key_plain D f x && go r end) o end
  | VStr s => bytes_above D s
  | VNum n => num_key_exactb n
  | _ => true
  end.
