(* Decimal.v — the double nearest (ties to even, overflow to infinity) to a decimal literal, computed exactly.
   This is the executable specification standing in for fast_float2::parse / str::parse::<f64> / nom's double
   (DESIGN §3.4): those crates are modelled, not verified. *)
From Coq Require Import ZArith NArith Bool Lia List.
Import ListNotations.
Open Scope Z_scope.

(* value = m10 * 10^e10 with m10 >= 0; result: the 63 low bits of the binary64 pattern *)
Definition round_dec_pos (m10 e10 : Z) : Z :=
  if m10 =? 0 then 0 else
  let num := if 0 <=? e10 then m10 * 10 ^ e10 else m10 in
  let den := if 0 <=? e10 then 1 else 10 ^ (- e10) in
  let l := Z.log2 num - Z.log2 den in
  let k0 := 52 - l in
  let scale k := if 0 <=? k then (num * 2 ^ k, den) else (num, den * 2 ^ (- k)) in
  let q_of k := let '(n, d) := scale k in n / d in
  let k1 := if q_of k0 <? 2 ^ 52 then k0 + 1 else if 2 ^ 53 <=? q_of k0 then k0 - 1 else k0 in
  let k := Z.min k1 1074 in
  let '(n, d) := scale k in
  let q := n / d in let r := n - q * d in
  let q' := if (d <? 2 * r) || ((2 * r =? d) && Z.odd q) then q + 1 else q in
  let '(q'', k') := if q' =? 2 ^ 53 then (2 ^ 52, k - 1) else (q', k) in
  if q'' <? 2 ^ 52 then q''
  else let biased := 1075 - k' in
       if 2047 <=? biased then 2047 * 2 ^ 52
       else biased * 2 ^ 52 + (q'' - 2 ^ 52).

(* number of decimal digits of m (m > 0), by fuel on the bit length *)
Fixpoint ndigits_fuel (fuel : nat) (m : Z) : Z :=
  match fuel with O => 0 | S f => if m <? 10 then 1 else 1 + ndigits_fuel f (m / 10) end.
Definition ndigits (m : Z) : Z := ndigits_fuel (S (Z.to_nat (Z.log2 m))) m.

(* guard against astronomically large exponents before any power is computed *)
Definition round_dec (neg : bool) (m10 e10 : Z) : N :=
  let mag :=
    if m10 =? 0 then 0
    else let nd := ndigits m10 in
         if 400 <? e10 + nd then 2047 * 2 ^ 52          (* >= 10^399: infinity *)
         else if e10 + nd <? -400 then 0                 (* < 10^-400: zero *)
         else round_dec_pos m10 e10 in
  Z.to_N (if neg then 2 ^ 63 + mag else mag).

(* decimal digits -> Z *)
Fixpoint digits_val (ds : list N) (acc : Z) : Z :=
  match ds with [] => acc | d :: r => digits_val r (acc * 10 + (Z.of_N d - 48)) end.
