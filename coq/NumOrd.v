(* NumOrd.v — the ALGORITHM of `impl Ord for Number` / `impl PartialEq for Number` in src/number.rs (after fix b344864),
   arm by arm, on the model's representation (NInt z, NUInt n, NFloat bits).  `Num.num_cmp` is the SPECIFICATION (order of
   the exact values); this file is the code as written: the nine match arms, the sign tests and `as u64` casts of the mixed
   integer arms, `OrderedFloat::cmp` (ordered-float 4.6: lt/gt through `ge`), and `cmp_int_float` with its NaN test, its two
   range guards against +-18446744073709551616.0, `f64::trunc`, the saturating cast `as i128`, and the tie-break
   `0.0.partial_cmp(&(r - t)).unwrap()` (an `unwrap`: None would be a panic, hence the `res` result).
   NumOrdProofs.v proves that this algorithm computes `num_cmp`, with no panic.  Executable definitions only.

   IEEE-754 primitives used by the Rust code and how they are modelled on 64-bit patterns:
   * `<`, `<=`, `>=`, `==`, `partial_cmp` on f64: comparison of the values denoted (Num.f_ext), unordered when either side is
     NaN, -0.0 equal to 0.0 (this is the definition of the IEEE comparison predicates);
   * `trunc`: clears the fractional mantissa bits of the pattern (sign kept; |x| < 1 gives a signed zero; patterns whose
     exponent says "no fractional bits", including infinities and NaN, are returned unchanged);
   * `as i128`: Rust's saturating float-to-int cast (NaN to 0, out of range to MIN/MAX, otherwise the integer obtained by
     shifting the 53-bit significand, i.e. rounding toward zero);
   * `-` on f64: the exact difference of the two values rounded to nearest, ties to even, with the IEEE rules for the sign
     of a zero result, for infinities and for NaN (the payload of a produced NaN is not observable through cmp). *)
From Coq Require Import List NArith ZArith Bool.
Import ListNotations.
From JB Require Import Constants Bytes Num.
Open Scope N_scope.

Definition two63N : N := 9223372036854775808.
Definition f_signbit (b : N) : N := if f_sign b then two63N else 0.

(* f64::partial_cmp *)
Definition f_partial_cmp (a b : N) : option comparison :=
  if f_is_nan a || f_is_nan b then None else Some (ext_cmp (f_ext a) (f_ext b)).
(* a >= b, a <= b on f64 *)
Definition f_ge (a b : N) : bool := match f_partial_cmp a b with Some Gt | Some Eq => true | _ => false end.
Definition f_le (a b : N) : bool := match f_partial_cmp a b with Some Lt | Some Eq => true | _ => false end.

(* f64::trunc *)
Definition f_trunc (b : N) : N :=
  let e := f_exp b in
  if e <? 1023 then f_signbit b
  else if 1075 <=? e then b
  else b - b mod 2 ^ (1075 - e).

(* `x as i128` for x : f64 *)
Definition I128_MAX : Z := 170141183460469231731687303715884105727%Z.
Definition I128_MIN : Z := (-170141183460469231731687303715884105728)%Z.
Definition f_to_i128 (b : N) : Z :=
  if f_is_nan b then 0%Z
  else
    let e := f_exp b in let m := f_man b in
    if e <? 1023 then 0%Z
    else if 1150 <=? e then (if f_sign b then I128_MIN else I128_MAX)
    else
      let mag := if e <? 1075 then Z.of_N ((two52 + m) / 2 ^ (1075 - e))
                 else (Z.of_N (two52 + m) * 2 ^ (Z.of_N e - 1075))%Z in
      if f_sign b then (- mag)%Z else mag.

(* nearest-even rounding of a * 2^-1074 (a > 0) to the magnitude bits (exponent and mantissa fields) of a double *)
Definition f_round_mag (a : N) : N :=
  let k := N.log2 a in
  if k <=? 52 then a                                       (* subnormal, or the first binade: exact *)
  else
    let sh := k - 52 in
    let q := a / 2 ^ sh in let r := a mod 2 ^ sh in let half := 2 ^ (sh - 1) in
    let q1 := if (half <? r) || ((r =? half) && N.odd q) then q + 1 else q in
    let bits := sh * two52 + q1 in                         (* exponent field sh+1, hidden bit removed; a carry moves up *)
    if F_INF <=? bits then F_INF else bits.

(* a - b on f64 *)
Definition f_sub (a b : N) : N :=
  if f_is_nan a || f_is_nan b then F_NAN
  else if f_is_inf a then (if f_is_inf b && Bool.eqb (f_sign a) (f_sign b) then F_NAN else a)
  else if f_is_inf b then (if f_sign b then F_INF else F_NEG_INF)
  else
    let d := (f_scaled a - f_scaled b)%Z in
    if (d =? 0)%Z then (if f_sign a && negb (f_sign b) then two63N else 0)   (* +0, except (-0) - (+0) = -0 *)
    else (if (d <? 0)%Z then two63N else 0) + f_round_mag (Z.to_N (Z.abs d)).

(* ---- ordered_float::OrderedFloat<f64> (4.6.0): ge, lt, gt, cmp ---- *)
Definition of_ge (a b : N) : bool := f_is_nan a || f_ge a b.     (* self.0.is_nan() | (self.0 >= other.0) *)
Definition of_lt (a b : N) : bool := negb (of_ge a b).            (* !self.ge(other) *)
Definition of_gt (a b : N) : bool := negb (of_ge b a).            (* !other.ge(self) *)
Definition of_cmp_rs (a b : N) : comparison :=
  if of_lt a b then Lt else if of_gt a b then Gt else Eq.

(* ---- fn cmp_int_float(l: i128, r: f64) -> Ordering ---- *)
Definition F_TWO64 : N := 4895412794951729152.       (* 0x43F0000000000000 =  18446744073709551616.0 *)
Definition F_NEG_TWO64 : N := 14118784831806504960.  (* 0xC3F0000000000000 = -18446744073709551616.0 *)
Definition F_ZERO : N := 0.                          (* 0.0_f64 *)

Definition cmp_int_float (l : Z) (r : N) : res comparison :=
  if f_is_nan r then Ok Lt
  else if f_ge r F_TWO64 then Ok Lt
  else if f_le r F_NEG_TWO64 then Ok Gt
  else
    let t := f_trunc r in
    match Z.compare l (f_to_i128 t) with
    | Eq => or_panic (f_partial_cmp F_ZERO (f_sub r t))
    | ord => Ok ord
    end.

(* `*l as u64` for l : i64 (wrapping); `*l as i128` is exact for both i64 and u64 and is the identity on Z *)
Definition i64_as_u64 (z : Z) : N := Z.to_N (z mod 18446744073709551616)%Z.

(* ---- impl Ord for Number ---- *)
Definition num_cmp_rs_res (a b : num) : res comparison :=
  match a, b with
  | NInt l, NInt r => Ok (Z.compare l r)
  | NUInt l, NUInt r => Ok (N.compare l r)
  | NInt l, NUInt r => if (l <? 0)%Z then Ok Lt else Ok (N.compare (i64_as_u64 l) r)
  | NUInt l, NInt r => if (r <? 0)%Z then Ok Gt else Ok (N.compare l (i64_as_u64 r))
  | NFloat l, NFloat r => Ok (of_cmp_rs l r)
  | NInt l, NFloat r => cmp_int_float l r
  | NUInt l, NFloat r => cmp_int_float (Z.of_N l) r
  | NFloat l, NInt r => res_map CompOpp (cmp_int_float r l)               (* .reverse() *)
  | NFloat l, NUInt r => res_map CompOpp (cmp_int_float (Z.of_N r) l)
  end.

(* impl PartialEq for Number: self.cmp(other) == Ordering::Equal *)
Definition num_eqb_rs_res (a b : num) : res bool :=
  res_map (fun o => match o with Eq => true | _ => false end) (num_cmp_rs_res a b).

(* total versions (the Panic/Err branches are unreachable on in-range numbers: NumOrdProofs.num_cmp_rs_res_correct) *)
Definition num_cmp_rs (a b : num) : comparison := match num_cmp_rs_res a b with Ok o => o | _ => Eq end.
Definition num_eqb_rs (a b : num) : bool := match num_cmp_rs a b with Eq => true | _ => false end.
