(* DecimalBounds.v — the decimal reader never produces a NaN: Decimal.round_dec returns the bit pattern of a finite
   double or of an infinity (integer arithmetic only; the link with Flocq's rounding is FlocqLink.v).
   Used by TextBinProofs.v: a float in a parsed JSON text is never a NaN, so `normalise` leaves it alone. *)
From Coq Require Import ZArith NArith Bool Lia.
From JB Require Import Num Decimal.
Open Scope Z_scope.
Set Default Timeout 60.

(* the pieces of round_dec_pos under names (the same unfolding as FlocqLink.round_dec_pos_unfold) *)
Definition dscale (num den k : Z) : Z * Z :=
  if 0 <=? k then (num * 2 ^ k, den) else (num, den * 2 ^ (- k)).
Definition dq (num den k : Z) : Z := let '(n, d) := dscale num den k in n / d.
Definition dnum (m10 e10 : Z) : Z := if 0 <=? e10 then m10 * 10 ^ e10 else m10.
Definition dden (e10 : Z) : Z := if 0 <=? e10 then 1 else 10 ^ (- e10).
Definition dk1 (num den : Z) : Z :=
  let k0 := 52 - (Z.log2 num - Z.log2 den) in
  if dq num den k0 <? 2 ^ 52 then k0 + 1 else if 2 ^ 53 <=? dq num den k0 then k0 - 1 else k0.
Definition rne_q (n d : Z) : Z :=
  let q := n / d in let r := n - q * d in
  if (d <? 2 * r) || ((2 * r =? d) && Z.odd q) then q + 1 else q.
Definition pack_pos (q' k : Z) : Z :=
  let '(q'', k') := if q' =? 2 ^ 53 then (2 ^ 52, k - 1) else (q', k) in
  if q'' <? 2 ^ 52 then q''
  else let biased := 1075 - k' in
       if 2047 <=? biased then 2047 * 2 ^ 52 else biased * 2 ^ 52 + (q'' - 2 ^ 52).

Lemma round_dec_pos_unfold m10 e10 :
  m10 <> 0 ->
  round_dec_pos m10 e10 =
  let num := dnum m10 e10 in let den := dden e10 in
  let k := Z.min (dk1 num den) 1074 in
  let '(n, d) := dscale num den k in pack_pos (rne_q n d) k.
Proof.
  intros H. unfold round_dec_pos. replace (m10 =? 0) with false by lia. reflexivity.
Qed.

(* the scaled quotient is below c *)
Definition below (num den k c : Z) : Prop := fst (dscale num den k) < c * snd (dscale num den k).

Lemma dscale_pos num den k : 0 < num -> 0 < den -> 0 < fst (dscale num den k) /\ 0 < snd (dscale num den k).
Proof.
  intros Hn Hd. unfold dscale. destruct (Z.leb_spec 0 k) as [Hk|Hk]; cbn [fst snd].
  - assert (0 < 2 ^ k) by (apply Z.pow_pos_nonneg; lia). split; [nia|lia].
  - assert (0 < 2 ^ (- k)) by (apply Z.pow_pos_nonneg; lia). split; [lia|nia].
Qed.

Lemma below_mono num den k k' c : 0 < num -> 0 < den -> 0 < c -> k <= k' -> below num den k' c -> below num den k c.
Proof.
  intros Hn Hd Hc Hk. unfold below, dscale.
  destruct (Z.leb_spec 0 k') as [H1|H1], (Z.leb_spec 0 k) as [H2|H2]; cbn [fst snd]; intros B; try lia.
  - assert (0 < 2 ^ k) by (apply Z.pow_pos_nonneg; lia).
    assert (2 ^ k <= 2 ^ k') by (apply Z.pow_le_mono_r; lia). nia.
  - assert (1 <= 2 ^ k') by (assert (0 < 2 ^ k') by (apply Z.pow_pos_nonneg; lia); lia).
    assert (1 <= 2 ^ (- k)) by (assert (0 < 2 ^ (- k)) by (apply Z.pow_pos_nonneg; lia); lia). nia.
  - assert (0 < 2 ^ (- k')) by (apply Z.pow_pos_nonneg; lia).
    assert (2 ^ (- k') <= 2 ^ (- k)) by (apply Z.pow_le_mono_r; lia). nia.
Qed.

Lemma below_double num den k c : 0 < num -> 0 < den -> below num den k c -> below num den (k + 1) (2 * c).
Proof.
  intros Hn Hd. unfold below, dscale.
  destruct (Z.leb_spec 0 k) as [H1|H1], (Z.leb_spec 0 (k + 1)) as [H2|H2]; cbn [fst snd]; intros B; try lia.
  - rewrite Z.pow_add_r by lia. change (2 ^ 1) with 2. lia.
  - assert (k = -1) by lia. subst k. change (2 ^ (-1 + 1)) with 1. change (2 ^ (- -1)) with 2 in B. lia.
  - replace (- k) with (- (k + 1) + 1) in B by lia. rewrite Z.pow_add_r in B by lia. change (2 ^ 1) with 2 in B. lia.
Qed.

Lemma below_base num den : 0 < num -> 0 < den -> below num den (52 - (Z.log2 num - Z.log2 den)) (2 ^ 53).
Proof.
  intros Hn Hd. pose proof (Z.log2_spec num Hn) as [N1 N2]. pose proof (Z.log2_spec den Hd) as [D1 D2].
  pose proof (Z.log2_nonneg num) as Ln. pose proof (Z.log2_nonneg den) as Ld.
  set (ln := Z.log2 num) in *. set (ld := Z.log2 den) in *. unfold Z.succ in *.
  unfold below, dscale. destruct (Z.leb_spec 0 (52 - (ln - ld))) as [Hk|Hk]; cbn [fst snd].
  - assert (E : 2 ^ (ln + 1) * 2 ^ (52 - (ln - ld)) = 2 ^ 53 * 2 ^ ld) by (rewrite <- !Z.pow_add_r by lia; f_equal; lia).
    assert (0 < 2 ^ (52 - (ln - ld))) by (apply Z.pow_pos_nonneg; lia).
    assert (0 < 2 ^ 53) by reflexivity. nia.
  - assert (E : 2 ^ 53 * 2 ^ ld * 2 ^ (- (52 - (ln - ld))) = 2 ^ (ln + 1)) by (rewrite <- !Z.pow_add_r by lia; f_equal; lia).
    assert (0 < 2 ^ (- (52 - (ln - ld)))) by (apply Z.pow_pos_nonneg; lia).
    assert (0 < 2 ^ 53) by reflexivity. nia.
Qed.

Lemma dq_below num den k c : 0 < num -> 0 < den -> (dq num den k < c <-> below num den k c).
Proof.
  intros Hn Hd. destruct (dscale_pos num den k Hn Hd) as [P1 P2]. unfold dq, below.
  destruct (dscale num den k) as [n d]; cbn [fst snd] in *. split; intros H.
  - destruct (Z.lt_ge_cases n (c * d)) as [L|G]; [exact L|].
    assert (c <= n / d) by (apply Z.div_le_lower_bound; lia). lia.
  - apply Z.div_lt_upper_bound; lia.
Qed.

Lemma dk1_below num den : 0 < num -> 0 < den -> below num den (dk1 num den) (2 ^ 53).
Proof.
  intros Hn Hd. pose proof (below_base num den Hn Hd) as B0. unfold dk1. cbv zeta.
  set (k0 := 52 - (Z.log2 num - Z.log2 den)) in *.
  destruct (Z.ltb_spec (dq num den k0) (2 ^ 52)) as [L|G].
  - apply (dq_below num den k0 (2 ^ 52) Hn Hd) in L. apply (below_double num den k0 (2 ^ 52) Hn Hd L).
  - destruct (Z.leb_spec (2 ^ 53) (dq num den k0)) as [Big|_]; [|exact B0].
    apply (dq_below num den k0 (2 ^ 53) Hn Hd) in B0. lia.
Qed.

Lemma pack_pos_bound q k : 0 <= q -> q <= 2 ^ 53 -> k <= 1074 -> 0 <= pack_pos q k <= 2047 * 2 ^ 52.
Proof.
  change (2 ^ 53) with 9007199254740992. change (2 ^ 52) with 4503599627370496.
  intros H0 H1 Hk. unfold pack_pos. change (2 ^ 53) with 9007199254740992. change (2 ^ 52) with 4503599627370496.
  destruct (Z.eqb_spec q 9007199254740992) as [E|E].
  - change (4503599627370496 <? 4503599627370496) with false. cbv iota zeta.
    destruct (Z.leb_spec 2047 (1075 - (k - 1))); lia.
  - destruct (Z.ltb_spec q 4503599627370496); [lia|]. cbv zeta.
    destruct (Z.leb_spec 2047 (1075 - k)); lia.
Qed.

Lemma rne_q_bound n d : 0 < d -> 0 <= n -> n < 2 ^ 53 * d -> 0 <= rne_q n d <= 2 ^ 53.
Proof.
  intros Hd Hn B. unfold rne_q. cbv zeta.
  assert (Q0 : 0 <= n / d) by (apply Z.div_pos; lia).
  assert (Q1 : n / d < 2 ^ 53) by (apply Z.div_lt_upper_bound; lia).
  destruct ((d <? 2 * (n - n / d * d)) || ((2 * (n - n / d * d) =? d) && Z.odd (n / d))); lia.
Qed.

Theorem round_dec_pos_bound m10 e10 : 0 < m10 -> 0 <= round_dec_pos m10 e10 <= 2047 * 2 ^ 52.
Proof.
  intros Hm. rewrite round_dec_pos_unfold by lia. cbv zeta.
  assert (Hn : 0 < dnum m10 e10).
  { unfold dnum. destruct (Z.leb_spec 0 e10); [|exact Hm]. assert (0 < 10 ^ e10) by (apply Z.pow_pos_nonneg; lia). nia. }
  assert (Hd : 0 < dden e10).
  { unfold dden. destruct (Z.leb_spec 0 e10); [lia|]. apply Z.pow_pos_nonneg; lia. }
  set (num := dnum m10 e10) in *. set (den := dden e10) in *.
  set (k := Z.min (dk1 num den) 1074).
  assert (B : below num den k (2 ^ 53)).
  { apply (below_mono num den k (dk1 num den)); [exact Hn|exact Hd|reflexivity|unfold k; lia|apply dk1_below; assumption]. }
  destruct (dscale_pos num den k Hn Hd) as [P1 P2]. unfold below in B.
  destruct (dscale num den k) as [n d]; cbn [fst snd] in *.
  destruct (rne_q_bound n d P2 ltac:(lia) B) as [R0 R1].
  apply pack_pos_bound; [exact R0|exact R1|unfold k; lia].
Qed.

(* hence no NaN: the exponent field is all ones only for the infinity *)
Ltac Zify.zify_post_hook ::= Z.div_mod_to_equations.
Lemma not_nan_below (b : N) : (b <= 9218868437227405312)%N -> f_is_nan b = false /\ f_is_nan (9223372036854775808 + b) = false.
Proof.
  intros B. unfold f_is_nan, f_exp, f_man, two52.
  assert (E1 : ((9223372036854775808 + b) / 4503599627370496 = 2048 + b / 4503599627370496)%N).
  { replace 9223372036854775808%N with (2048 * 4503599627370496)%N by reflexivity.
    rewrite N.add_comm, N.div_add by lia. lia. }
  assert (E2 : ((9223372036854775808 + b) mod 4503599627370496 = b mod 4503599627370496)%N).
  { replace 9223372036854775808%N with (2048 * 4503599627370496)%N by reflexivity.
    rewrite N.add_comm, N.mod_add by lia. reflexivity. }
  assert (E3 : (b / 4503599627370496 <= 2047)%N) by lia.
  assert (E4 : ((2048 + b / 4503599627370496) mod 2048 = b / 4503599627370496)%N).
  { replace 2048%N with (1 * 2048)%N at 1 by reflexivity. rewrite N.add_comm, N.mod_add by lia. apply N.mod_small. lia. }
  assert (E5 : ((b / 4503599627370496) mod 2048 = b / 4503599627370496)%N) by (apply N.mod_small; lia).
  rewrite E1, E2, E4, E5.
  destruct (N.eqb_spec (b / 4503599627370496) 2047) as [E|E]; [|split; reflexivity].
  assert (E6 : (b mod 4503599627370496 = 0)%N) by (clear - B E; pose proof (N.div_mod' b 4503599627370496); lia). rewrite E6. split; reflexivity.
Qed.
Ltac Zify.zify_post_hook ::= idtac.

Theorem round_dec_not_nan neg m10 e10 : 0 <= m10 -> f_is_nan (round_dec neg m10 e10) = false.
Proof.
  intros Hm. unfold round_dec.
  set (mag := if m10 =? 0 then 0 else _).
  assert (B : 0 <= mag <= 2047 * 2 ^ 52).
  { unfold mag. destruct (Z.eqb_spec m10 0) as [E|E]; [lia|].
    destruct (400 <? e10 + ndigits m10); [lia|]. destruct (e10 + ndigits m10 <? -400); [lia|].
    apply round_dec_pos_bound. lia. }
  clearbody mag. change (2047 * 2 ^ 52) with 9218868437227405312 in B. change (2 ^ 63) with 9223372036854775808.
  destruct (not_nan_below (Z.to_N mag) ltac:(lia)) as [N1 N2].
  destruct neg; [|exact N1].
  replace (Z.to_N (9223372036854775808 + mag)) with (9223372036854775808 + Z.to_N mag)%N by lia. exact N2.
Qed.
