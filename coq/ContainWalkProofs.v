(* ContainWalkProofs.v — the offset-faithful containment walker (ContainWalk.v: contains_jsonb, array_contains,
   scalar_payload_eq) returns the tree-level answer contains_t on canonical encodings: no error, no panic, the fuel
   S (length right) is enough.  (C12) *)
From Coq Require Import List NArith ZArith Bool Lia.
Import ListNotations.
From JB Require Import Constants Bytes Utf8 Num NumProofs Value Codec Order OrderProofs CodecProofs RoundtripProofs TreeOps
  JsonText Contain Dispatch DispatchProofs MiscProofs ContainProofs Walk WalkProofs Iter IterProofs CompareWalk
  CompareWalkProofs TreeWf ContainWalk.
Open Scope N_scope.
Set Default Timeout 120.

Arguments N.lor : simpl never.
Arguments N.land : simpl never.
Arguments N.add : simpl never.
Arguments N.mul : simpl never.
Arguments N.ltb : simpl never.
Arguments N.leb : simpl never.
Arguments N.eqb : simpl never.
Arguments be32 : simpl never.
Arguments read_u32 : simpl never.
Arguments slice : simpl never.

(* ---------------------------------------------------------------- equalities *)
Lemma bytes_eqb_sym a b : bytes_eqb a b = bytes_eqb b a.
Proof. rewrite !bytes_eqb_cmp, (bytes_antisym a b). destruct (bytes_cmp b a); reflexivity. Qed.
Lemma num_eqb_sym x y : num_eqb x y = num_eqb y x.
Proof. unfold num_eqb. rewrite (num_cmp_antisym x y). destruct (num_cmp y x); reflexivity. Qed.
Lemma num_eqb_normalise x y : num_eqb (normalise_num x) (normalise_num y) = num_eqb x y.
Proof. unfold num_eqb. rewrite num_cmp_normalise. reflexivity. Qed.

Lemma spe_sym t l r : scalar_payload_eq_w t l r = scalar_payload_eq_w t r l.
Proof.
  unfold scalar_payload_eq_w. destruct (t =? NUMBER_TAG); [|apply bytes_eqb_sym].
  destruct (num_decode l), (num_decode r); try apply bytes_eqb_sym. apply num_eqb_sym.
Qed.

(* decide the comparisons between closed tags *)
Ltac eval_eqb :=
  repeat match goal with |- context [N.eqb ?a ?b] =>
    let v := eval vm_compute in (N.eqb a b) in
    match v with
    | true => change (N.eqb a b) with true
    | false => change (N.eqb a b) with false
    end end.

Lemma wfb_num n : wfb (VNum n) = true -> num_in_range n = true.
Proof. unfold wfb. cbn [wf_shape wf_size]. intros H. apply andb_true_iff in H. apply H. Qed.

(* same entry type and scalar_payload_eq on the payloads = equality of the values (numbers by value) *)
Lemma scalar_bridge x b : wfb x = true -> wfb b = true -> is_scalar b = true ->
  (if negb (tag_of x =? tag_of b) then false else scalar_payload_eq_w (tag_of b) (payload x) (payload b)) = value_eqb x b.
Proof.
  intros Hx Hb Hs.
  destruct b as [|[]|t|m|lb|ob]; try discriminate Hs; destruct x as [|[]|s|n|l|o]; cbn [tag_of]; eval_eqb; cbn [negb];
    try reflexivity; unfold scalar_payload_eq_w; eval_eqb; unfold payload; cbn [enc_item snd value_eqb]; try reflexivity.
  rewrite (num_roundtrip n (wfb_num n Hx)), (num_roundtrip m (wfb_num m Hb)). apply num_eqb_normalise.
Qed.

Lemma tag_container x : (tag_of x =? CONTAINER_TAG) = is_container x.
Proof. destruct (tag_tests x) as (_ & _ & _ & _ & _ & H). rewrite H. destruct x; reflexivity. Qed.
Lemma tag_scalar x : negb (tag_of x =? CONTAINER_TAG) = is_scalar x.
Proof. rewrite tag_container. unfold is_container. apply negb_involutive. Qed.

(* ---------------------------------------------------------------- list-level loops *)
Lemma fold_exit_ext {X St R} (s1 s2 : St -> X -> res (St + R)) fin l :
  (forall s x, In x l -> s1 s x = s2 s x) -> forall s, fold_exit s1 fin l s = fold_exit s2 fin l s.
Proof.
  induction l as [|x l IH]; intros H s; cbn [fold_exit]; [reflexivity|].
  rewrite (H s x (or_introl eq_refl)). destruct (s2 s x) as [[s'|y]|e|]; cbn [bind]; try reflexivity.
  apply IH. intros s0 x0 Hin. apply H. right. exact Hin.
Qed.
Lemma fold_exit_any {X} (p : X -> bool) l :
  fold_exit (fun (_ : unit) x => if p x then Ok (inr true) else Ok (inl tt)) (fun _ => Ok false) l tt = Ok (existsb p l) :> res bool.
Proof.
  induction l as [|x l IH]; cbn [fold_exit existsb]; [reflexivity|].
  destruct (p x); cbn [bind orb]; [reflexivity|exact IH].
Qed.
Lemma fold_exit_all {X} (p : X -> bool) l :
  fold_exit (fun (_ : unit) x => if p x then Ok (inl tt) else Ok (inr false)) (fun _ => Ok true) l tt = Ok (forallb p l) :> res bool.
Proof.
  induction l as [|x l IH]; cbn [fold_exit forallb]; [reflexivity|].
  destruct (p x); cbn [bind andb]; [exact IH|reflexivity].
Qed.
Lemma filter_map {A B} (f : B -> bool) (g : A -> B) l : filter f (map g l) = map g (filter (fun x => f (g x)) l).
Proof. induction l as [|x l IH]; cbn [map filter]; [reflexivity|]. rewrite IH. destruct (f (g x)); reflexivity. Qed.
Lemma existsb_filter {A} (p q : A -> bool) l : existsb p (filter q l) = existsb (fun x => q x && p x) l.
Proof. induction l as [|x l IH]; cbn [filter existsb]; [reflexivity|]. destruct (q x); cbn [existsb andb]; rewrite IH; reflexivity. Qed.
Lemma nested_any_spec rec (p : value -> bool) l :
  (forall x, In x l -> rec (payload x) = Ok (p x)) -> nested_any rec (map payload l) = Ok (existsb p l).
Proof.
  induction l as [|x l IH]; intros H; cbn [map nested_any existsb]; [reflexivity|].
  rewrite (H x (or_introl eq_refl)). cbn [bind]. destruct (p x); cbn [orb]; [reflexivity|].
  apply IH. intros y Hy. apply H. right. exact Hy.
Qed.

(* ---------------------------------------------------------------- reads at the top of a document *)
Lemma rd_some bs off w : rd bs off = Ok w -> read_u32 bs off = Some w.
Proof. unfold rd. destruct (read_u32 bs off); cbn [of_option]; congruence. Qed.
Lemma read_hdr_arr0 l B : lenN l < 536870912 -> read_u32 (payload (VArr l) ++ B) 0 = Some (arr_hdr l).
Proof. intros H. exact (read_hdr_arr [] l B H). Qed.
Lemma read_hdr_obj0 o B : lenN o < 536870912 -> read_u32 (payload (VObj o) ++ B) 0 = Some (obj_hdr o).
Proof. intros H. exact (read_hdr_obj [] o B H). Qed.
Lemma slice_from_app A p : slice_from (A ++ p) (lenN A) = Some p.
Proof.
  unfold slice_from. rewrite lenN_app. destruct (lenN A <=? lenN A + lenN p) eqn:E; [|apply N.leb_gt in E; lia].
  rewrite to_nat_lenN, skipn_app, skipn_all, Nat.sub_diag. reflexivity.
Qed.
Lemma scalar_from8 v : is_container v = false -> slice_from (enc v) 8 = Some (payload v).
Proof.
  intros Hs. rewrite (scalar_doc v Hs), app_assoc. apply (slice_from_app (be32 SCALAR_CONTAINER_TAG ++ be32 (word v))).
Qed.

(* ---------------------------------------------------------------- array_contains *)
Lemma array_contains_arr la B b : wfb (VArr la) = true -> wfb b = true -> is_scalar b = true ->
  array_contains_w (payload (VArr la) ++ B) (arr_hdr la) (payload b) (ent b) = Ok (existsb (fun x => value_eqb x b) la).
Proof.
  intros Wa Wb Sb. destruct (wf_arr la Wa) as [Hall Hn].
  unfold array_contains_w. rewrite iterate_array_arr; [|eapply Forall_impl; [|exact Hall]; intros; apply wfb_size; assumption|exact Hn].
  rewrite <- (fold_exit_any (fun x => value_eqb x b) la). apply fold_exit_ext. intros s x Hin.
  rewrite Forall_forall in Hall. rewrite <- (scalar_bridge x b (Hall x Hin) Wb Sb). cbn [ent fst].
  rewrite (spe_sym (tag_of b) (payload b) (payload x)).
  destruct (negb (tag_of x =? tag_of b)); [reflexivity|].
  destruct (scalar_payload_eq_w (tag_of b) (payload x) (payload b)); reflexivity.
Qed.

Lemma nested_of_arr la B : wfb (VArr la) = true ->
  nested_of (payload (VArr la) ++ B) (arr_hdr la) = Ok (map payload (filter is_container la)).
Proof.
  intros Wa. destruct (wf_arr la Wa) as [Hall Hn]. unfold nested_of.
  rewrite arr_items_arr; [|eapply Forall_impl; [|exact Hall]; intros; apply wfb_size; assumption|exact Hn].
  cbn [bind]. rewrite filter_map, map_map. cbn [fst snd ent]. f_equal. f_equal.
  clear. induction la as [|x l IH]; cbn [filter]; [reflexivity|]. rewrite tag_container, IH. reflexivity.
Qed.

(* ---------------------------------------------------------------- one element / one member *)
Lemma sv_veq lv rv : same_variant lv rv && value_eqb lv rv = value_eqb lv rv.
Proof. destruct (value_eqb lv rv) eqn:E; [rewrite (value_eqb_variant lv rv E); reflexivity|apply andb_false_r]. Qed.
Lemma tree_member_scalar lv rv : is_scalar rv = true ->
  same_variant lv rv && (if is_scalar lv then value_eqb lv rv else contained_in rv lv) = value_eqb lv rv.
Proof.
  intros Sr. destruct (is_scalar lv) eqn:Sl; [apply sv_veq|].
  destruct lv; try discriminate Sl; destruct rv; try discriminate Sr; reflexivity.
Qed.
Lemma contained_variant rv lv : is_container lv = true -> is_container rv = true -> same_variant lv rv = false ->
  contained_in rv lv = false.
Proof.
  intros Cl Cr Sv. destruct rv as [| | | |rb|rb]; try discriminate Cr; destruct lv as [| | | |la|la]; try discriminate Cl; try discriminate Sv.
  - rewrite contained_arr. reflexivity.
  - rewrite contained_obj. reflexivity.
Qed.

Lemma member_check (rec : list N -> list N -> res bool) lv rv : wfb lv = true -> wfb rv = true ->
  (is_container lv = true -> is_container rv = true -> rec (payload lv) (payload rv) = Ok (contained_in rv lv)) ->
  (if negb (tag_of lv =? tag_of rv) then Ok (inr false) else
   if negb (tag_of rv =? CONTAINER_TAG) then
     (if scalar_payload_eq_w (tag_of rv) (payload lv) (payload rv) then Ok (inl tt) else Ok (inr false))
   else do b <- rec (payload lv) (payload rv); if b then Ok (inl tt) else Ok (inr false))
  = (if same_variant lv rv && (if is_scalar lv then value_eqb lv rv else contained_in rv lv)
     then Ok (inl tt) else Ok (inr false)) :> res (unit + bool).
Proof.
  intros Wl Wr Hrec. rewrite tag_scalar. destruct (is_scalar rv) eqn:Sr.
  - rewrite (tree_member_scalar lv rv Sr), <- (scalar_bridge lv rv Wl Wr Sr).
    destruct (negb (tag_of lv =? tag_of rv)); reflexivity.
  - assert (Cr : is_container rv = true) by (unfold is_container; rewrite Sr; reflexivity).
    assert (Tr : tag_of rv = CONTAINER_TAG) by (apply N.eqb_eq; rewrite tag_container; exact Cr).
    rewrite Tr, tag_container. destruct (is_container lv) eqn:Cl; cbn [negb].
    + rewrite (Hrec eq_refl Cr). cbn [bind].
      assert (Sl : is_scalar lv = false) by (unfold is_container in Cl; destruct (is_scalar lv); [discriminate Cl|reflexivity]).
      rewrite Sl. destruct (same_variant lv rv) eqn:Sv; cbn [andb]; [reflexivity|].
      rewrite (contained_variant rv lv Cl Cr Sv). reflexivity.
    + assert (Sv : same_variant lv rv = false) by (destruct lv; try discriminate Cl; destruct rv; try discriminate Sr; reflexivity).
      rewrite Sv. reflexivity.
Qed.

Lemma elem_check (rec : list N -> list N -> res bool) la B rv : wfb (VArr la) = true -> wfb rv = true ->
  (forall lv, In lv la -> is_container lv = true -> is_container rv = true -> rec (payload lv) (payload rv) = Ok (contained_in rv lv)) ->
  (if negb (tag_of rv =? CONTAINER_TAG) then
     do b <- array_contains_w (payload (VArr la) ++ B) (arr_hdr la) (payload rv) (ent rv);
     if b then Ok (inl tt) else Ok (inr false)
   else
     do nested <- nested_of (payload (VArr la) ++ B) (arr_hdr la);
     do b <- nested_any (fun lv => rec lv (payload rv)) nested;
     if b then Ok (inl tt) else Ok (inr false))
  = (if (if is_scalar rv then existsb (fun x => value_eqb x rv) la
         else existsb (fun lv => is_container lv && contained_in rv lv) la)
     then Ok (inl tt) else Ok (inr false)) :> res (unit + bool).
Proof.
  intros Wa Wr Hrec. rewrite tag_scalar. destruct (is_scalar rv) eqn:Sr.
  - rewrite (array_contains_arr la B rv Wa Wr Sr). reflexivity.
  - assert (Cr : is_container rv = true) by (unfold is_container; rewrite Sr; reflexivity).
    rewrite (nested_of_arr la B Wa). cbn [bind].
    rewrite (nested_any_spec (fun lv => rec lv (payload rv)) (contained_in rv)).
    + cbn [bind]. rewrite existsb_filter. reflexivity.
    + intros x Hx. apply filter_In in Hx. destruct Hx as [Hin Cx]. apply (Hrec x Hin Cx Cr).
Qed.

(* ---------------------------------------------------------------- one call of contains_jsonb on two encodings *)
Definition child_of (rv b : value) : Prop :=
  match b with VArr l => In rv l | VObj o => In rv (vals o) | _ => False end.

Lemma hdr_scalar_type : hdr_type SCALAR_CONTAINER_TAG = SCALAR_CONTAINER_TAG. Proof. vm_compute. reflexivity. Qed.

Lemma step_scalar_scalar rec a b : wfb a = true -> wfb b = true -> is_scalar a = true -> is_scalar b = true ->
  contains_step rec (enc a) (enc b) = Ok (same_variant a b && value_eqb a b).
Proof.
  intros Wa Wb Sa Sb.
  assert (Ca : is_container a = false) by (unfold is_container; rewrite Sa; reflexivity).
  assert (Cb : is_container b = false) by (unfold is_container; rewrite Sb; reflexivity).
  unfold contains_step.
  rewrite (rd_some _ _ _ (rd_scalar_hdr a Ca)), (rd_some _ _ _ (rd_scalar_hdr b Cb)).
  cbv zeta. rewrite hdr_scalar_type. eval_eqb. cbn [andb negb].
  rewrite (rd_some _ _ _ (rd_scalar_word a Ca (wfb_size a Wa))), (rd_some _ _ _ (rd_scalar_word b Cb (wfb_size b Wb))).
  rewrite (word_type a (wfb_size a Wa)), (word_type b (wfb_size b Wb)), (scalar_from8 a Ca), (scalar_from8 b Cb).
  rewrite sv_veq, <- (scalar_bridge a b Wa Wb Sb).
  destruct (tag_of a =? tag_of b) eqn:E; cbn [negb]; [|reflexivity].
  apply N.eqb_eq in E. rewrite E. reflexivity.
Qed.

Lemma enc_arr_nil la : enc (VArr la) = payload (VArr la) ++ []. Proof. rewrite app_nil_r. reflexivity. Qed.
Lemma enc_obj_nil oa : enc (VObj oa) = payload (VObj oa) ++ []. Proof. rewrite app_nil_r. reflexivity. Qed.

Lemma wfb_sizes l : Forall (fun v => wfb v = true) l -> Forall (fun v => wf_size v = true) l.
Proof. intros H. eapply Forall_impl; [|exact H]. intros; apply wfb_size; assumption. Qed.

Lemma step_arr_scalar rec la b : wfb (VArr la) = true -> wfb b = true -> is_scalar b = true ->
  contains_step rec (enc (VArr la)) (enc b) = Ok (existsb (fun x => value_eqb x b) la).
Proof.
  intros Wa Wb Sb. destruct (wf_arr la Wa) as [Hall Hn].
  assert (Cb : is_container b = false) by (unfold is_container; rewrite Sb; reflexivity).
  unfold contains_step. rewrite enc_arr_nil.
  rewrite (read_hdr_arr0 la [] Hn), (rd_some _ _ _ (rd_scalar_hdr b Cb)).
  cbv zeta. destruct (arr_hdr_facts la Hn) as (_ & T & _). rewrite T, hdr_scalar_type. eval_eqb. cbn [andb].
  rewrite (rd_some _ _ _ (rd_scalar_word b Cb (wfb_size b Wb))), (scalar_from8 b Cb), (decode_je_word b (wfb_size b Wb)).
  apply (array_contains_arr la [] b Wa Wb Sb).
Qed.

Lemma step_arr_arr rec la rb : wfb (VArr la) = true -> wfb (VArr rb) = true ->
  (forall lv rv, In lv la -> In rv rb -> is_container lv = true -> is_container rv = true ->
     rec (payload lv) (payload rv) = Ok (contained_in rv lv)) ->
  contains_step rec (enc (VArr la)) (enc (VArr rb)) = Ok (contained_in (VArr rb) (VArr la)).
Proof.
  intros Wa Wb Hrec. destruct (wf_arr la Wa) as [Halla Hna]. destruct (wf_arr rb Wb) as [Hallb Hnb].
  unfold contains_step. rewrite !enc_arr_nil.
  rewrite (read_hdr_arr0 la [] Hna), (read_hdr_arr0 rb [] Hnb). cbv zeta.
  destruct (arr_hdr_facts la Hna) as (_ & Ta & _). destruct (arr_hdr_facts rb Hnb) as (_ & Tb & _). rewrite Ta, Tb.
  eval_eqb. cbn [andb negb].
  rewrite (iterate_array_arr _ _ rb [] tt (wfb_sizes rb Hallb) Hnb).
  rewrite contained_arr.
  rewrite <- (fold_exit_all (fun rv => if is_scalar rv then existsb (fun x => value_eqb x rv) la
                                       else existsb (fun lv => is_container lv && contained_in rv lv) la) rb).
  apply fold_exit_ext. intros s rv Hin. cbn [ent fst].
  rewrite Forall_forall in Hallb.
  apply (elem_check rec la [] rv Wa (Hallb rv Hin)). intros lv Hl Cl Cr. apply (Hrec lv rv Hl Hin Cl Cr).
Qed.

Lemma step_obj_obj rec la rb : wfb (VObj la) = true -> wfb (VObj rb) = true ->
  (forall lv rv, In lv (vals la) -> In rv (vals rb) -> is_container lv = true -> is_container rv = true ->
     rec (payload lv) (payload rv) = Ok (contained_in rv lv)) ->
  contains_step rec (enc (VObj la)) (enc (VObj rb)) = Ok (contained_in (VObj rb) (VObj la)).
Proof.
  intros Wa Wb Hrec. destruct (obj_ok_of_wf la Wa) as [Hoa Hna]. destruct (obj_ok_of_wf rb Wb) as [Hob Hnb].
  destruct (wf_obj la Wa) as (Halla & _ & _). destruct (wf_obj rb Wb) as (Hallb & _ & _).
  unfold contains_step. rewrite !enc_obj_nil.
  rewrite (read_hdr_obj0 la [] Hna), (read_hdr_obj0 rb [] Hnb). cbv zeta.
  destruct (obj_hdr_facts la Hna) as (_ & Ta & La). destruct (obj_hdr_facts rb Hnb) as (_ & Tb & Lb). rewrite Ta, Tb, La, Lb.
  eval_eqb. cbn [andb negb]. rewrite contained_obj.
  destruct (lenN la <? lenN rb) eqn:EL.
  { apply N.ltb_lt in EL. unfold lenN in EL.
    assert (E : (length rb <=? length la)%nat = false) by (apply Nat.leb_gt; lia). rewrite E. reflexivity. }
  apply N.ltb_ge in EL. unfold lenN in EL.
  assert (E : (length rb <=? length la)%nat = true) by (apply Nat.leb_le; lia). rewrite E. cbn [andb].
  rewrite (iterate_object_entries_obj _ _ rb [] tt Hob Hnb).
  rewrite <- (fold_exit_all (fun kv => match assoc_lookup (fst kv) la with
                                      | Some lv => same_variant lv (snd kv) &&
                                                   (if is_scalar lv then value_eqb lv (snd kv) else contained_in (snd kv) lv)
                                      | None => false end) rb).
  apply fold_exit_ext. intros s [k rv] Hin. cbn [fst snd ent].
  destruct (name_loc [] la [] k Hoa Hna) as [NL1 NL2]. cbn [app] in NL1, NL2. change (lenN (@nil N)) with 0 in NL1, NL2.
  rewrite NL1. cbn [bind].
  destruct (assoc_lookup k la) as [lv|] eqn:Lk; [|reflexivity].
  destruct (NL2 lv eq_refl) as (A' & B' & EA & LA & Hlv & Hinl).
  assert (Wlv : wfb lv = true).
  { unfold vals in Hinl. apply in_map_iff in Hinl. destruct Hinl as (kv & <- & Hkv). rewrite Forall_forall in Halla. apply (Halla kv Hkv). }
  assert (Wrv : wfb rv = true) by (rewrite Forall_forall in Hallb; apply (Hallb (k, rv) Hin)).
  rewrite (word_type lv Hlv), (word_len lv Hlv).
  destruct (negb (tag_of lv =? tag_of rv)) eqn:ET.
  { pose proof (member_check rec lv rv Wlv Wrv) as MC. rewrite ET in MC. rewrite <- MC; [reflexivity|].
    intros Cl Cr. apply (Hrec lv rv Hinl); [|exact Cl|exact Cr].
    unfold vals. apply in_map_iff. exists (k, rv). split; [reflexivity|exact Hin]. }
  rewrite EA, (slice_p_in A' (payload lv) B' _ _ (eq_sym LA) eq_refl). cbn [bind].
  pose proof (member_check rec lv rv Wlv Wrv) as MC. rewrite ET in MC. apply MC.
  intros Cl Cr. apply (Hrec lv rv Hinl); [|exact Cl|exact Cr].
  unfold vals. apply in_map_iff. exists (k, rv). split; [reflexivity|exact Hin].
Qed.

(* documents of different top-level types (other than array / bare scalar) *)
Definition top_type (v : value) : N :=
  match v with VArr _ => ARRAY_CONTAINER_TAG | VObj _ => OBJECT_CONTAINER_TAG | _ => SCALAR_CONTAINER_TAG end.
Lemma doc_hdr v : wfb v = true -> exists h, read_u32 (enc v) 0 = Some h /\ hdr_type h = top_type v.
Proof.
  intros W. destruct (is_scalar v) eqn:Sv.
  - assert (Cv : is_container v = false) by (unfold is_container; rewrite Sv; reflexivity).
    exists SCALAR_CONTAINER_TAG. split; [apply rd_some, rd_scalar_hdr, Cv|].
    rewrite hdr_scalar_type. destruct v; try discriminate Sv; reflexivity.
  - destruct v as [| | | |l|o]; try discriminate Sv.
    + destruct (wf_arr l W) as [_ Hn]. exists (arr_hdr l). rewrite enc_arr_nil. split; [apply read_hdr_arr0, Hn|apply arr_hdr_facts, Hn].
    + destruct (obj_ok_of_wf o W) as [_ Hn]. exists (obj_hdr o). rewrite enc_obj_nil. split; [apply read_hdr_obj0, Hn|apply obj_hdr_facts, Hn].
Qed.
Lemma step_mismatch rec a b : wfb a = true -> wfb b = true ->
  (top_type a =? ARRAY_CONTAINER_TAG) && (top_type b =? SCALAR_CONTAINER_TAG) = false ->
  (top_type a =? top_type b) = false ->
  contains_step rec (enc a) (enc b) = Ok false /\ contained_in b a = false.
Proof.
  intros Wa Wb H1 H2. split.
  - destruct (doc_hdr a Wa) as (ha & Ra & Ta). destruct (doc_hdr b Wb) as (hb & Rb & Tb).
    unfold contains_step. rewrite Ra, Rb. cbv zeta. rewrite Ta, Tb, H1, H2. reflexivity.
  - destruct a as [|[]| | | |], b as [|[]| | | |]; try discriminate H1; try discriminate H2; reflexivity.
Qed.

(* ---------------------------------------------------------------- contains_jsonb on two encodings *)
Lemma arr_child_len rb rv : In rv rb -> (length (payload rv) + 4 <= length (enc (VArr rb)))%nat.
Proof.
  intros Hin. change (enc (VArr rb)) with (payload (VArr rb)). rewrite payload_arr, !app_length, be32_len.
  pose proof (payload_in_sum rb rv Hin). lia.
Qed.
Lemma obj_child_len rb rv : In rv (vals rb) -> (length (payload rv) + 4 <= length (enc (VObj rb)))%nat.
Proof.
  intros Hin. change (enc (VObj rb)) with (payload (VObj rb)). rewrite payload_obj, !app_length, be32_len.
  pose proof (payload_in_sum (vals rb) rv Hin). lia.
Qed.

Theorem contains_jsonb_enc : forall b, wfb b = true -> forall a fuel, wfb a = true -> (length (enc b) < fuel)%nat ->
  contains_jsonb_w fuel (enc a) (enc b) = Ok (contained_in b a).
Proof.
  assert (Sc : forall b, is_scalar b = true -> wfb b = true -> forall a fuel, wfb a = true -> (length (enc b) < fuel)%nat ->
               contains_jsonb_w fuel (enc a) (enc b) = Ok (contained_in b a)).
  { intros b Sb Wb a fuel Wa Hf. destruct fuel as [|f]; [lia|]. cbn [contains_jsonb_w].
    rewrite (contained_scalar b a Sb). destruct (is_scalar a) eqn:Sa.
    - rewrite (step_scalar_scalar _ a b Wa Wb Sa Sb). destruct a; try discriminate Sa; reflexivity.
    - destruct a as [| | | |la|oa]; try discriminate Sa.
      + apply (step_arr_scalar _ la b Wa Wb Sb).
      + destruct (step_mismatch (contains_jsonb_w f) (VObj oa) b Wa Wb) as [E _];
          [reflexivity|destruct b; try discriminate Sb; reflexivity|].
        rewrite E. destruct b; try discriminate Sb; reflexivity. }
  induction b as [|x|s|n|rb IH|rb IH] using value_ind2; intros Wb a fuel Wa Hf;
    try (apply Sc; [reflexivity|assumption..]).
  - (* arrays *)
    destruct fuel as [|f]; [lia|]. cbn [contains_jsonb_w].
    destruct a as [|z|u|k|la|oa];
      try (destruct (step_mismatch (contains_jsonb_w f) _ (VArr rb) Wa Wb eq_refl eq_refl) as [E1 E2]; rewrite E1, E2; reflexivity).
    apply (step_arr_arr _ la rb Wa Wb). intros lv rv Hl Hr Cl Cr.
    rewrite <- (container_doc lv Cl), <- (container_doc rv Cr).
    rewrite Forall_forall in IH. destruct (wf_arr la Wa) as [Halla _]. destruct (wf_arr rb Wb) as [Hallb _].
    rewrite Forall_forall in Halla, Hallb.
    apply (IH rv Hr (Hallb rv Hr) lv f (Halla lv Hl)).
    rewrite (container_doc rv Cr). pose proof (arr_child_len rb rv Hr). lia.
  - (* objects *)
    destruct fuel as [|f]; [lia|]. cbn [contains_jsonb_w].
    destruct a as [|z|u|k|la|oa];
      try (destruct (step_mismatch (contains_jsonb_w f) _ (VObj rb) Wa Wb eq_refl eq_refl) as [E1 E2]; rewrite E1, E2; reflexivity).
    apply (step_obj_obj _ oa rb Wa Wb). intros lv rv Hl Hr Cl Cr.
    rewrite <- (container_doc lv Cl), <- (container_doc rv Cr).
    destruct (wf_obj oa Wa) as (Halla & _ & _). destruct (wf_obj rb Wb) as (Hallb & _ & _).
    rewrite Forall_forall in IH, Halla, Hallb.
    unfold vals in Hl, Hr. apply in_map_iff in Hl, Hr. destruct Hl as (kl & <- & Hl). destruct Hr as (kr & <- & Hr).
    apply (IH kr Hr (proj1 (Hallb kr Hr)) (snd kl) f (proj1 (Halla kl Hl))).
    rewrite (container_doc (snd kr) Cr).
    assert (Hin : In (snd kr) (vals rb)) by (unfold vals; apply in_map; exact Hr).
    pose proof (obj_child_len rb (snd kr) Hin). lia.
Qed.

(* ---------------------------------------------------------------- the public function *)
Theorem contains_b_enc a b : wfb a = true -> wfb b = true -> contains_b (enc a) (enc b) = Ok (contains_t a b).
Proof.
  intros Wa Wb. unfold contains_b, contains_t. rewrite (contains_jsonb_enc b Wb a _ Wa); [reflexivity|lia].
Qed.

Theorem contains_w_enc a b : wfb a = true -> wfb b = true -> top_ok a -> top_ok b ->
  contains_w (enc a) (enc b) = Ok (contains_t a b).
Proof.
  intros Wa Wb Ta Tb. unfold contains_w. rewrite (is_jsonb_enc a Wa Ta), (is_jsonb_enc b Wb Tb). cbn [negb orb].
  apply contains_b_enc; assumption.
Qed.

(* the walker and the view-level model of Dispatch.v agree on encodings: containment does not see the
   representation change of a decode (numbers are compared by value) *)
Lemma forallb_map' {A B} (p : B -> bool) (f : A -> B) l : forallb p (map f l) = forallb (fun x => p (f x)) l.
Proof. induction l as [|x l IH]; cbn [map forallb]; [reflexivity|]. rewrite IH. reflexivity. Qed.
Lemma forallb_ext_in' {A} (p q : A -> bool) l : (forall x, In x l -> p x = q x) -> forallb p l = forallb q l.
Proof.
  induction l as [|x l IH]; intros H; cbn [forallb]; [reflexivity|].
  rewrite (H x (or_introl eq_refl)), IH; [reflexivity|]. intros y Hy. apply H. right. exact Hy.
Qed.
Lemma wf_size_normalise v : wf_size (normalise v) = wf_size v.
Proof.
  induction v as [|x|s|n|l IH|o IH] using value_ind2; try reflexivity.
  - change (normalise (VArr l)) with (VArr (map normalise l)).
    assert (E : enc_item (VArr (map normalise l)) = enc_item (VArr l)) by apply (enc_item_normalise (VArr l)).
    cbn [wf_size]. cbn [wf_size] in E. rewrite E, lenN_map, forallb_map'. f_equal.
    apply forallb_ext_in'. rewrite Forall_forall in IH. exact IH.
  - change (normalise (VObj o)) with (VObj (map (fun kv => (fst kv, normalise (snd kv))) o)).
    assert (E : enc_item (VObj (map (fun kv => (fst kv, normalise (snd kv))) o)) = enc_item (VObj o)) by apply (enc_item_normalise (VObj o)).
    cbn [wf_size]. cbn [wf_size] in E. rewrite E, lenN_map, forallb_map'. f_equal.
    apply forallb_ext_in'. rewrite Forall_forall in IH. intros kv Hin. cbn [fst snd]. rewrite (IH kv Hin). reflexivity.
Qed.
Lemma wfb_normalise v : wfb v = true -> wfb (normalise v) = true.
Proof.
  unfold wfb. intros H. apply andb_true_iff in H. destruct H as [H1 H2].
  rewrite (TreeWf.wf_normalise v H1), wf_size_normalise, H2. reflexivity.
Qed.
Lemma top_ok_normalise v : top_ok v -> top_ok (normalise v).
Proof. unfold top_ok. destruct v; cbn [normalise top_count]; rewrite ?lenN_map; auto. Qed.

Theorem contains_w_m_enc a b : wfb a = true -> wfb b = true -> top_ok a -> top_ok b ->
  contains_w (enc a) (enc b) = contains_m (enc a) (enc b).
Proof.
  intros Wa Wb Ta Tb. rewrite (contains_on_enc a Wa Ta b Wb Tb).
  rewrite <- (enc_normalise a), <- (enc_normalise b).
  apply contains_w_enc; auto using wfb_normalise, top_ok_normalise.
Qed.
(* hence the tree function itself is insensitive to the number representation of well-formed documents *)
Corollary contains_t_normalise a b : wfb a = true -> wfb b = true ->
  contains_t (normalise a) (normalise b) = contains_t a b.
Proof.
  intros Wa Wb. pose proof (contains_b_enc (normalise a) (normalise b) (wfb_normalise a Wa) (wfb_normalise b Wb)) as H.
  rewrite !enc_normalise, (contains_b_enc a b Wa Wb) in H. congruence.
Qed.

(* ---------------------------------------------------------------- the fuel is enough on EVERY pair of buffers *)
(* EFuel is a model artefact; it is unreachable whatever the bytes are: the array iterator reads an entry word at a
   strictly larger offset each round, and every recursive call of contains_jsonb gets a slice of `right` that starts
   at offset >= 8, so it is at least 8 bytes shorter *)
From JB Require Import RenderWalkProofs.

Definition nf {A} (r : res A) : Prop := r <> Err EFuel.
Lemma nf_ok {A} (a : A) : nf (Ok a). Proof. intros H; discriminate H. Qed.
Lemma nf_panic {A} : nf (@Panic A). Proof. intros H; discriminate H. Qed.
Lemma nf_other {A} : nf (@Err A EOther). Proof. intros H; discriminate H. Qed.
Lemma nf_bind {A B} (r : res A) (f : A -> res B) : nf r -> (forall a, r = Ok a -> nf (f a)) -> nf (bind r f).
Proof.
  destruct r; cbn [bind]; intros H1 H2; [apply H2; reflexivity| |apply nf_panic].
  intros E. apply H1. injection E as ->. reflexivity.
Qed.

Lemma arr_fold_nf {St R} bs (step : St -> je -> list N -> res (St + R)) fin :
  (forall s, nf (fin s)) ->
  (forall s j p, lenN p + 8 <= lenN bs -> nf (step s j p)) ->
  forall fuel idx len joff voff s, joff <= lenN bs + 4 -> lenN bs + 4 < joff + 4 * N.of_nat fuel -> (idx < len -> 8 <= voff) ->
  nf (arr_fold bs step fin fuel idx len joff voff s).
Proof.
  intros Hfin Hstep. induction fuel as [|f IH]; intros idx len joff voff s H1 H2 H3; [lia|].
  cbn [arr_fold]. unfold ITER_ARR_JSTEP. destruct (len <=? idx) eqn:E; [apply Hfin|]. apply N.leb_gt in E.
  destruct (read_u32 bs joff) as [w|] eqn:Rw; [|apply Hfin].
  destruct (slice bs voff (je_len w)) as [p|] eqn:Sp; [|apply nf_panic].
  pose proof (read_u32_bound _ _ _ Rw) as Bw.
  destruct (slice_split _ _ _ _ Sp) as (A & B & EV & EO & EL).
  assert (Lp : lenN p + 8 <= lenN bs) by (rewrite EV, !lenN_app; specialize (H3 E); lia).
  apply nf_bind; [apply Hstep; exact Lp|]. intros [s'|y] _; [|apply nf_ok].
  apply IH; [lia|lia|]. intros _. specialize (H3 E). lia.
Qed.
Lemma iterate_array_nf {St R} bs hdr (step : St -> je -> list N -> res (St + R)) fin s :
  (forall s, nf (fin s)) -> (forall s j p, lenN p + 8 <= lenN bs -> nf (step s j p)) ->
  nf (iterate_array bs hdr step fin s).
Proof.
  intros Hfin Hstep. unfold iterate_array, ITER_ARR_JOFF, ITER_ARR_VOFF. apply (arr_fold_nf bs step fin Hfin Hstep); unfold lenN; lia.
Qed.

Lemma ent_loop_nf {St R} bs (step : St -> list N -> je -> list N -> res (St + R)) fin :
  (forall s, nf (fin s)) -> (forall s k j p, lenN p + 8 <= lenN bs -> nf (step s k j p)) ->
  forall kws koff joff voff s, 8 <= voff -> nf (ent_loop bs step fin kws koff joff voff s).
Proof.
  intros Hfin Hstep. induction kws as [|kw r IH]; intros koff joff voff s Hv; cbn [ent_loop]; [apply Hfin|].
  destruct (slice bs koff (je_len kw)) as [k|]; [|apply nf_panic].
  destruct (read_u32 bs joff) as [vw|]; [|apply Hfin].
  destruct (slice bs voff (je_len vw)) as [p|] eqn:Sp; [|apply nf_panic].
  destruct (slice_split _ _ _ _ Sp) as (A & B & EV & EO & EL).
  apply nf_bind; [apply Hstep; rewrite EV, !lenN_app; lia|]. intros [s'|y] _; [|apply nf_ok].
  apply IH. lia.
Qed.
Lemma iterate_object_entries_nf {St R} bs hdr (step : St -> list N -> je -> list N -> res (St + R)) fin s :
  (forall s, nf (fin s)) -> (forall s k j p, lenN p + 8 <= lenN bs -> nf (step s k j p)) ->
  nf (iterate_object_entries bs hdr step fin s).
Proof.
  intros Hfin Hstep. unfold iterate_object_entries, ITER_ENT_JOFF, ITER_ENT_KOFF, ITER_ENT_VOFF, ITER_FILL_JSTEP.
  destruct (rd_words (S (length bs)) bs 0 (hdr_len hdr) 4) as [kws|] eqn:E; [|apply nf_panic].
  destruct kws as [|kw r]; [cbn [ent_loop]; apply Hfin|].
  apply (ent_loop_nf bs step fin Hfin Hstep). pose proof (rd_words_len _ _ _ _ _ _ E) as L. rewrite lenN_cons in L. lia.
Qed.

Lemma array_contains_nf arr hdr val vje : nf (array_contains_w arr hdr val vje).
Proof.
  unfold array_contains_w. apply iterate_array_nf; [intros; apply nf_ok|].
  intros s j p _. destruct (negb (fst j =? fst vje)); [apply nf_ok|]. destruct (scalar_payload_eq_w (fst vje) val p); apply nf_ok.
Qed.
Lemma nested_of_nf l lh : nf (nested_of l lh).
Proof.
  unfold nested_of. apply nf_bind; [|intros; apply nf_ok].
  unfold arr_items. apply iterate_array_nf; intros; apply nf_ok.
Qed.
Lemma nested_any_nf rec ls : (forall x, nf (rec x)) -> nf (nested_any rec ls).
Proof.
  intros H. induction ls as [|x r IH]; cbn [nested_any]; [apply nf_ok|].
  apply nf_bind; [apply H|]. intros [|] _; [apply nf_ok|exact IH].
Qed.
Lemma name_loop_nf bs name ic : forall kws ko jo vo res0, nf (name_loop bs name ic kws ko jo vo res0).
Proof.
  induction kws as [|kw r IH]; intros ko jo vo res0; cbn [name_loop]; [apply nf_ok|].
  destruct (slice bs ko (je_len kw)); [|apply nf_panic]. destruct (read_u32 bs jo); [|apply nf_ok].
  destruct (bytes_eqb name l); [apply nf_ok|apply IH].
Qed.
Lemma by_name_nf bs off hdr name ic : nf (get_jentry_by_name_w bs off hdr name ic).
Proof. unfold get_jentry_by_name_w. destruct (rd_words _ _ _ _ _); [apply name_loop_nf|apply nf_ok]. Qed.

Lemma contains_step_nf rec l r : (forall lv rv, lenN rv + 8 <= lenN r -> nf (rec lv rv)) -> nf (contains_step rec l r).
Proof.
  intros Hrec. unfold contains_step.
  destruct (read_u32 l 0) as [lh|]; [|apply nf_other]. destruct (read_u32 r 0) as [rh|]; [|apply nf_other]. cbv zeta.
  destruct ((hdr_type lh =? ARRAY_CONTAINER_TAG) && (hdr_type rh =? SCALAR_CONTAINER_TAG)).
  { destruct (read_u32 r 4); [|apply nf_other]. destruct (slice_from r 8); [apply array_contains_nf|apply nf_panic]. }
  destruct (negb (hdr_type lh =? hdr_type rh)); [apply nf_ok|].
  destruct (hdr_type rh =? OBJECT_CONTAINER_TAG).
  { destruct (hdr_len lh <? hdr_len rh); [apply nf_ok|].
    apply iterate_object_entries_nf; [intros; apply nf_ok|]. intros s k j p Lp.
    apply nf_bind; [apply by_name_nf|]. intros [[lenc loff]|] _; [|apply nf_ok].
    destruct (negb (je_type lenc =? fst j)); [apply nf_ok|].
    apply nf_bind; [unfold slice_p; destruct (slice l loff (je_len lenc)); [apply nf_ok|apply nf_panic]|]. intros lval _.
    destruct (negb (fst j =? CONTAINER_TAG)); [destruct (scalar_payload_eq_w (fst j) lval p); apply nf_ok|].
    apply nf_bind; [apply Hrec; exact Lp|]. intros [|] _; apply nf_ok. }
  destruct (hdr_type rh =? ARRAY_CONTAINER_TAG).
  { apply iterate_array_nf; [intros; apply nf_ok|]. intros s j p Lp.
    destruct (negb (fst j =? CONTAINER_TAG)).
    - apply nf_bind; [apply array_contains_nf|]. intros [|] _; apply nf_ok.
    - apply nf_bind; [apply nested_of_nf|]. intros nested _.
      apply nf_bind; [apply nested_any_nf; intros x; apply Hrec; exact Lp|]. intros [|] _; apply nf_ok. }
  destruct (read_u32 l 4) as [lw|]; [|apply nf_other]. destruct (read_u32 r 4) as [rw|]; [|apply nf_other].
  destruct (negb (je_type lw =? je_type rw)); [apply nf_ok|].
  destruct (slice_from l 8); [|apply nf_panic]. destruct (slice_from r 8); [apply nf_ok|apply nf_panic].
Qed.

Theorem contains_jsonb_fuel : forall fuel l r, (length r < fuel)%nat -> contains_jsonb_w fuel l r <> Err EFuel.
Proof.
  induction fuel as [|f IH]; intros l r H; [lia|]. cbn [contains_jsonb_w].
  apply contains_step_nf. intros lv rv Lr. apply IH. unfold lenN in Lr. lia.
Qed.
Corollary contains_b_fuel l r : contains_jsonb_w (S (length r)) l r <> Err EFuel.
Proof. apply contains_jsonb_fuel. lia. Qed.
