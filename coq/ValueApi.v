(* ValueApi.v — the rest of the crate's tree-level API (value.rs, from.rs, lazy_value.rs), as executable functions:
   `impl Display for Value`, the Value helpers (is_* / as_* / array_length / object_keys / eq_variant /
   get_by_name_ignore_case), the From<primitive> conversions and LazyValue.  Definitions only; proofs in ValueApiProofs.v. *)
From Coq Require Import List NArith ZArith Bool.
Import ListNotations.
From JB Require Import Constants Bytes Utf8 Num Value Codec TreeOps Render Dispatch Walk DebugTable.
Open Scope N_scope.

(* ------------------------------------------------------------------------------------------------------------ *)
(* impl Display for Value.  Strings go through `{:?}` = <str as Debug>::fmt (core::fmt): a quote, then every char
   either copied or replaced by char::escape_debug_ext (escape_grapheme_extended, escape_double_quote), a quote:
     \0 \t \r \n \\ \QUOTE          two-character escapes (QUOTE = the double quote, byte 34)
     \u{h..h}                      lower-case hex, no leading zeros: every other char that is not `is_printable`
                                   or that is Grapheme_Extend (for ASCII: the other control characters and DEL)
   KEYS are written raw between two quotes (the key is formatted with {k}, Display for String), numbers by Display for Number (itoa / ryu). *)

(* lower-case hex digits of n without leading zeros (at least one digit): EscapeIterInner::unicode *)
Fixpoint hex_min_fuel (fuel : nat) (n : N) (acc : list N) : list N :=
  match fuel with
  | O => acc
  | S f => let acc' := hex_digit (n mod 16) :: acc in
           if n <? 16 then acc' else hex_min_fuel f (n / 16) acc'
  end.
Definition hex_min (n : N) : list N := hex_min_fuel 8 n [].
Definition unicode_escape (c : N) : list N := [92; 117; 123] ++ hex_min c ++ [125].

(* one ASCII char (b < 128) *)
Definition debug_ascii (b : N) : list N :=
  if b =? 0 then [92; 48]
  else if b =? 9 then [92; 116]
  else if b =? 13 then [92; 114]
  else if b =? 10 then [92; 110]
  else if b =? 92 then [92; 92]
  else if b =? 34 then [92; 34]
  else if (b <? 32) || (b =? 127) then unicode_escape b
  else [b].

Definition in_ranges (c : N) (l : list (N * N)) : bool := existsb (fun r => (fst r <=? c) && (c <=? snd r)) l.
(* a char >= U+0080: escaped iff the generated table (DebugTable.v: the toolchain's is_printable / Grapheme_Extend) says so *)
Definition debug_escaped (c : N) : bool := in_ranges c DEBUG_ESCAPED_RANGES.
Definition debug_multi (bytes : list N) (c : N) : list N := if debug_escaped c then unicode_escape c else bytes.

(* the chars of a UTF-8 string, one after the other (a Rust str is valid UTF-8; on other byte strings the function is
   total but means nothing) *)
Fixpoint debug_chars (s : list N) : list N :=
  match s with
  | [] => []
  | b0 :: r =>
      if b0 <? 128 then debug_ascii b0 ++ debug_chars r
      else if b0 <? 224 then
        match r with
        | b1 :: r1 => debug_multi [b0; b1] ((b0 - 192) * 64 + (b1 - 128)) ++ debug_chars r1
        | _ => s
        end
      else if b0 <? 240 then
        match r with
        | b1 :: b2 :: r2 => debug_multi [b0; b1; b2] ((b0 - 224) * 4096 + (b1 - 128) * 64 + (b2 - 128)) ++ debug_chars r2
        | _ => s
        end
      else
        match r with
        | b1 :: b2 :: b3 :: r3 =>
            debug_multi [b0; b1; b2; b3] ((b0 - 240) * 262144 + (b1 - 128) * 4096 + (b2 - 128) * 64 + (b3 - 128)) ++ debug_chars r3
        | _ => s
        end
  end.
Definition debug_str (s : list N) : list N := 34 :: debug_chars s ++ [34].
Definition raw_key (k : list N) : list N := 34 :: k ++ [34].

Section Display.
  Variable print_float : N -> list N.

  Fixpoint display (v : value) : list N :=
    match v with
    | VNull => [110; 117; 108; 108]
    | VBool true => [116; 114; 117; 101]
    | VBool false => [102; 97; 108; 115; 101]
    | VNum n => number_text print_float n
    | VStr s => debug_str s
    | VArr l =>
        let items := (fix go (first : bool) (l : list value) : list N :=
                        match l with
                        | [] => []
                        | x :: r => (if first then [] else [44]) ++ display x ++ go false r
                        end) true l in
        [91] ++ items ++ [93]
    | VObj o =>
        let items := (fix go (first : bool) (l : list (list N * value)) : list N :=
                        match l with
                        | [] => []
                        | (k, x) :: r => (if first then [] else [44]) ++ raw_key k ++ [58] ++ display x ++ go false r
                        end) true o in
        [123] ++ items ++ [125]
    end.
End Display.
(* with the placeholder float printer of the correspondence (Render.float_placeholder) *)
Definition display_t (v : value) : list N := display float_placeholder v.

(* where the two renderers of the crate print the same text (ValueApiProofs.display_agrees_with_to_string):
   a STRING may contain printable ASCII (quote and backslash included: both escape them the same way), \t \n \r, and every
   non-ASCII char that Debug does not escape; a KEY may contain any byte >= 0x20 except quote and backslash (DEL and every
   non-ASCII char included: both copy them). *)
Fixpoint display_safe_str (s : list N) : bool :=
  match s with
  | [] => true
  | b0 :: r =>
      if b0 <? 128 then (((32 <=? b0) && (b0 <? 127)) || (b0 =? 9) || (b0 =? 10) || (b0 =? 13)) && display_safe_str r
      else if b0 <? 224 then
        match r with
        | b1 :: r1 => (b0 <? 256) && (128 <=? b1) && (b1 <? 256) && negb (debug_escaped ((b0 - 192) * 64 + (b1 - 128))) && display_safe_str r1
        | _ => false
        end
      else if b0 <? 240 then
        match r with
        | b1 :: b2 :: r2 =>
            (128 <=? b1) && (b1 <? 256) && (128 <=? b2) && (b2 <? 256)
            && negb (debug_escaped ((b0 - 224) * 4096 + (b1 - 128) * 64 + (b2 - 128))) && display_safe_str r2
        | _ => false
        end
      else
        match r with
        | b1 :: b2 :: b3 :: r3 =>
            (b0 <? 256) && (128 <=? b1) && (b1 <? 256) && (128 <=? b2) && (b2 <? 256) && (128 <=? b3) && (b3 <? 256)
            && negb (debug_escaped ((b0 - 240) * 262144 + (b1 - 128) * 4096 + (b2 - 128) * 64 + (b3 - 128))) && display_safe_str r3
        | _ => false
        end
  end.
Definition display_safe_key_byte (b : N) : bool := (32 <=? b) && (b <? 256) && negb (b =? 34) && negb (b =? 92).
Definition display_safe_key (k : list N) : bool := forallb display_safe_key_byte k.
Fixpoint display_safe (v : value) : bool :=
  match v with
  | VStr s => display_safe_str s
  | VArr l => forallb display_safe l
  | VObj o => forallb (fun kv => display_safe_key (fst kv) && display_safe (snd kv)) o
  | _ => true
  end.
(* the simple class: printable ASCII without quote and backslash, in strings and keys alike *)
Definition plain_byte (b : N) : bool := (32 <=? b) && (b <? 127) && negb (b =? 34) && negb (b =? 92).
Fixpoint plain_value (v : value) : bool :=
  match v with
  | VStr s => forallb plain_byte s
  | VArr l => forallb plain_value l
  | VObj o => forallb (fun kv => forallb plain_byte (fst kv) && plain_value (snd kv)) o
  | _ => true
  end.

(* ------------------------------------------------------------------------------------------------------------ *)
(* impl Value: the helpers, written the way value.rs writes them *)
Definition value_as_object (v : value) : option (list (list N * value)) := match v with VObj o => Some o | _ => None end.
Definition value_as_array (v : value) : option (list value) := match v with VArr l => Some l | _ => None end.
Definition value_as_str (v : value) : option (list N) := match v with VStr s => Some s | _ => None end.
Definition value_as_number (v : value) : option num := match v with VNum n => Some n | _ => None end.
Definition value_as_i64 (v : value) : option Z := match v with VNum n => as_i64 n | _ => None end.
Definition value_as_u64 (v : value) : option N := match v with VNum n => as_u64 n | _ => None end.
Definition value_as_f64 (v : value) : option N := match v with VNum n => Some (as_f64 n) | _ => None end.
Definition value_as_bool (v : value) : option bool := match v with VBool b => Some b | _ => None end.
Definition value_as_null (v : value) : option unit := match v with VNull => Some tt | _ => None end.
Definition is_some {A} (o : option A) : bool := match o with Some _ => true | None => false end.
Definition value_is_object (v : value) : bool := is_some (value_as_object v).
Definition value_is_array (v : value) : bool := is_some (value_as_array v).
Definition value_is_scalar (v : value) : bool := negb (value_is_array v) && negb (value_is_object v).
Definition value_is_string (v : value) : bool := is_some (value_as_str v).
Definition value_is_number (v : value) : bool := match v with VNum _ => true | _ => false end.
Definition value_is_i64 (v : value) : bool := is_some (value_as_i64 v).
Definition value_is_u64 (v : value) : bool := is_some (value_as_u64 v).
Definition value_is_f64 (v : value) : bool := is_some (value_as_f64 v).
Definition value_is_boolean (v : value) : bool := is_some (value_as_bool v).
Definition value_is_null (v : value) : bool := is_some (value_as_null v).

Definition value_array_length (v : value) : option N := match v with VArr l => Some (lenN l) | _ => None end.
Definition value_object_keys (v : value) : option value :=
  match v with VObj o => Some (VArr (map (fun kv => VStr (fst kv)) o)) | _ => None end.
(* mem::discriminant: the variant, nothing else *)
Definition discriminant (v : value) : N :=
  match v with VNull => 0 | VBool _ => 1 | VStr _ => 2 | VNum _ => 3 | VArr _ => 4 | VObj _ => 5 end.
Definition value_eq_variant (a b : value) : bool := discriminant a =? discriminant b.
(* obj.get(name), else the first key (in key order) equal to name ignoring ASCII case, looked up again with obj.get(key) *)
Fixpoint first_key_ci (name : list N) (l : list (list N * value)) : option (list N) :=
  match l with
  | [] => None
  | (k, _) :: r => if eq_ignore_ascii_case name k then Some k else first_key_ci name r
  end.
Definition value_get_by_name_ignore_case (v : value) (name : list N) : option value :=
  match v with
  | VObj o => match assoc_lookup name o with
              | Some x => Some x
              | None => match first_key_ci name o with Some k => assoc_lookup k o | None => None end
              end
  | _ => None
  end.

(* ------------------------------------------------------------------------------------------------------------ *)
(* from.rs: From<primitive> for Value.  `n as i64` / `n as u64` from a narrower type of the same signedness keeps the
   value, so one function per signedness; f32 widens exactly. *)
Definition from_i64 (z : Z) : value := VNum (NInt z).     (* i8 i16 i32 i64 isize *)
Definition from_u64 (n : N) : value := VNum (NUInt n).    (* u8 u16 u32 u64 usize *)
Definition from_f64 (b : N) : value := VNum (NFloat b).   (* f64, OrderedFloat<f64> *)
(* `x as f64` for an f32 bit pattern: exact; a NaN keeps its sign and payload (shifted) and is made quiet, as the
   conversion instruction does *)
Definition two23 : N := 8388608.
Definition f32_sign (b : N) : bool := 2147483648 <=? b.
Definition f32_exp (b : N) : N := (b / two23) mod 256.
Definition f32_man (b : N) : N := b mod two23.
Definition f32_to_f64 (b : N) : N :=
  let s := if f32_sign b then 9223372036854775808 else 0 in
  let e := f32_exp b in let m := f32_man b in
  if e =? 255 then
    (if m =? 0 then s + 2047 * two52 else s + 2047 * two52 + N.lor (m * 536870912) 2251799813685248)
  else if e =? 0 then
    (if m =? 0 then s
     else let p := N.log2 m in                       (* subnormal: m * 2^-149 = 2^(p-149) * (m / 2^p) *)
          s + (p + 874) * two52 + (m - 2 ^ p) * 2 ^ (52 - p))
  else s + (e + 896) * two52 + m * 536870912.
Definition from_f32 (b : N) : value := VNum (NFloat (f32_to_f64 b)).   (* f32, OrderedFloat<f32> *)
Definition from_bool (b : bool) : value := VBool b.
Definition from_string (s : list N) : value := VStr s.    (* String, &str, Cow<str> *)
Definition from_unit : value := VNull.
Definition from_object (o : list (list N * value)) : value := VObj o.          (* Object = BTreeMap<String, Value> *)
Definition from_vec {A} (f : A -> value) (l : list A) : value := VArr (map f l).   (* Vec<T>, &[T], FromIterator<T> *)
(* FromIterator<(K, V)>: collected into a BTreeMap, a later pair replaces an earlier one with the same key *)
Definition from_pairs {A} (f : A -> value) (l : list (list N * A)) : value :=
  VObj (assoc_of_list (map (fun kv => (fst kv, f (snd kv))) l)).

(* ------------------------------------------------------------------------------------------------------------ *)
(* lazy_value.rs (the type `lazy`, parse_lazy_value, lazy_to_vec, lazy_to_value are in Dispatch.v) *)
Definition lazy_of_value (v : value) : lazy := LValue v.          (* From<Value> for LazyValue *)
Definition lazy_write_to_vec (buf : list N) (l : lazy) : list N :=
  match l with LValue v => write_to_vec buf v | LRaw bs => buf ++ bs end.
(* array_length: the Raw variant calls the byte-level function (the offset-faithful walker of Walk.v) *)
Definition lazy_array_length_w (l : lazy) : res (option N) :=
  match l with
  | LValue (VArr a) => Ok (Some (lenN a))
  | LValue _ => Ok None
  | LRaw bs => array_length_w bs
  end.
