(* SetSize.v — C13: the last size hypothesis of SetWalkProofs.v.
   array_distinct / array_intersection / array_except on encodings were proved under `wf_size (result) = true` (the
   result fits an entry word), which holds by itself when the first argument is an array but not when it is a scalar or
   an object: the result is then the one-element array built around the document, 8 bytes larger than it (header word
   + one entry word), and `wf_size` of that array is GENUINELY FALSE when the document's payload is within 8 bytes of
   2^28 (exact boundary below).
   The hypothesis is nevertheless not needed for the theorem: it was only used to call BuilderProofs.build_arr_raw
   (which goes through entry_okb: every length field right, container below 4 GiB).  With the frame theorem for arbitrary
   entries (BuilderFrame.write_entry_frame) the builder filled with the raw pieces of ANY list of values writes the
   layout of the array of those values -- the entry words of the children are copied, not recomputed, and the length
   the builder returns for the whole array (the only thing that could wrap) is not written anywhere at top level.
   So: for every well-formed a (and b) the walkers return buf ++ enc (tree result), unconditionally. *)
From Coq Require Import List NArith ZArith Bool Lia.
Import ListNotations.
From JB Require Import Constants Bytes Utf8 Num NumProofs Value Codec Order OrderProofs CodecProofs RoundtripProofs TreeOps
  JsonText SetOps Dispatch DispatchProofs MiscProofs Walk WalkProofs Iter IterProofs Builder BuilderProofs BuilderFrame
  CompareWalk CompareWalkProofs ContainWalk ContainWalkProofs SetWalk SetWalkProofs.
From JB Require Import BufSt EditStProofs.
Open Scope N_scope.
Set Default Timeout 120.

Arguments N.lor : simpl never.
Arguments N.land : simpl never.
Arguments N.add : simpl never.
Arguments N.mul : simpl never.
Arguments N.sub : simpl never.
Arguments N.ltb : simpl never.
Arguments N.leb : simpl never.
Arguments N.eqb : simpl never.
Arguments be32 : simpl never.
Arguments read_u32 : simpl never.
Arguments slice : simpl never.

(* ---------------------------------------------------------------- the builder on raw pieces, no size condition *)
Lemma wje_raw x : wje (raw_of x) = ent x. Proof. reflexivity. Qed.
Lemma wpl_raw x : wpl (raw_of x) = payload x. Proof. reflexivity. Qed.

Theorem build_arr_raw_any (l : list value) buf : build_arr_into buf (map raw_of l) = buf ++ enc (VArr l).
Proof.
  rewrite build_arr_into_any. f_equal. unfold wpl. rewrite witem_arr. cbn [snd].
  change (enc (VArr l)) with (payload (VArr l)). unfold payload. cbn [enc_item snd].
  replace (lenN (map raw_of l)) with (lenN l) by (unfold lenN; rewrite map_length; reflexivity).
  f_equal. f_equal.
  - induction l as [|x r IH]; cbn [map flat_map]; [reflexivity|]. rewrite IH, wje_raw, ent_word. reflexivity.
  - induction l as [|x r IH]; cbn [map flat_map]; [reflexivity|]. rewrite IH, wpl_raw. reflexivity.
Qed.

(* ---------------------------------------------------------------- the three walkers, no size hypothesis *)
Theorem array_distinct_b_enc_any a buf : wfb a = true ->
  array_distinct_b (enc a) buf = Ok (buf ++ enc (array_distinct_t a)).
Proof.
  intros W. destruct (arr_or_not a) as [[l ->]|Hn].
  - apply array_distinct_b_enc; [exact W|apply distinct_wf; exact W].
  - rewrite ?array_distinct_b_eq. unfold array_distinct_t.
    destruct (doc_hdr a W) as (h & Rh & Th). rewrite Rh, Th.
    rewrite (top_type_not_arr a Hn), (single_item_enc a h W Hn Th). cbn [bind].
    rewrite (items_single a Hn). cbn [distinct_acc existsb]. change [raw_entry (key a)] with (map raw_of [a]).
    rewrite build_arr_raw_any. reflexivity.
Qed.

Theorem array_intersection_b_enc_any a b buf : wfb a = true -> wfb b = true ->
  array_intersection_b (enc a) (enc b) buf = Ok (buf ++ enc (array_intersection_t a b)).
Proof.
  intros Wa Wb. destruct (arr_or_not a) as [[l ->]|Hn].
  - apply array_intersection_b_enc; [exact Wa|exact Wb|apply inter_wf; exact Wa].
  - rewrite ?array_intersection_b_eq. unfold array_intersection_t.
    destruct (doc_hdr a Wa) as (h1 & R1 & T1). destruct (doc_hdr b Wb) as (h2 & R2 & T2). rewrite R1, R2.
    destruct (count_items_enc b h2 Wb R2 T2) as (m & Em & Rm & Pm). rewrite Em. cbn [bind]. rewrite T1.
    pose proof (items_wf b Wb) as Wm.
    rewrite (top_type_not_arr a Hn), (single_item_enc a h1 Wa Hn T1). cbn [bind].
    rewrite (items_single a Hn). cbn [inter_acc].
    rewrite (has_take a m (items_of b) (wfb_size a Wa) Wm Rm Pm).
    destruct (take_one a (items_of b)).
    + change [raw_entry (key a)] with (map raw_of [a]). rewrite build_arr_raw_any. reflexivity.
    + change (@nil entry) with (map raw_of []). rewrite build_arr_raw_any. reflexivity.
Qed.

Theorem array_except_b_enc_any a b buf : wfb a = true -> wfb b = true ->
  array_except_b (enc a) (enc b) buf = Ok (buf ++ enc (array_except_t a b)).
Proof.
  intros Wa Wb. destruct (arr_or_not a) as [[l ->]|Hn].
  - apply array_except_b_enc; [exact Wa|exact Wb|apply except_wf; exact Wa].
  - rewrite ?array_except_b_eq. unfold array_except_t.
    destruct (doc_hdr a Wa) as (h1 & R1 & T1). destruct (doc_hdr b Wb) as (h2 & R2 & T2). rewrite R1, R2.
    destruct (count_items_enc b h2 Wb R2 T2) as (m & Em & Rm & Pm). rewrite Em. cbn [bind]. rewrite T1.
    pose proof (items_wf b Wb) as Wm.
    rewrite (top_type_not_arr a Hn), (single_item_enc a h1 Wa Hn T1). cbn [bind].
    rewrite (items_single a Hn). cbn [except_acc].
    rewrite (has_take a m (items_of b) (wfb_size a Wa) Wm Rm Pm).
    destruct (take_one a (items_of b)).
    + change (@nil entry) with (map raw_of []). rewrite build_arr_raw_any. reflexivity.
    + change [raw_entry (key a)] with (map raw_of [a]). rewrite build_arr_raw_any. reflexivity.
Qed.

(* the public functions, every combination of argument forms (encoding, or JSON text that parses to the value) *)
Theorem set_functions_forms_any t u a b buf : wfb a = true -> wfb b = true -> stands_for t a -> stands_for u b ->
  array_distinct_w t buf = Ok (buf ++ enc (array_distinct_t a)) /\
  array_intersection_w t u buf = Ok (buf ++ enc (array_intersection_t a b)) /\
  array_except_w t u buf = Ok (buf ++ enc (array_except_t a b)) /\
  array_overlap_w t u = Ok (array_overlap_t a b).
Proof.
  intros Wa Wb Sa Sb. rewrite ?array_distinct_w_eq, ?array_intersection_w_eq, ?array_except_w_eq.
  rewrite (as_jsonb_stands t a Wa Sa), (as_jsonb_stands u b Wb Sb). cbn [bind].
  split; [apply array_distinct_b_enc_any; exact Wa|].
  split; [apply array_intersection_b_enc_any; assumption|].
  split; [apply array_except_b_enc_any; assumption|].
  apply array_overlap_w_forms; assumption.
Qed.

Corollary set_functions_enc_any a b buf : wfb a = true -> top_ok a -> wfb b = true -> top_ok b ->
  array_distinct_w (enc a) buf = Ok (buf ++ enc (array_distinct_t a)) /\
  array_intersection_w (enc a) (enc b) buf = Ok (buf ++ enc (array_intersection_t a b)) /\
  array_except_w (enc a) (enc b) buf = Ok (buf ++ enc (array_except_t a b)) /\
  array_overlap_w (enc a) (enc b) = Ok (array_overlap_t a b).
Proof.
  intros Wa Ta Wb Tb. apply set_functions_forms_any; try assumption; left; split; (reflexivity || assumption).
Qed.

(* ---------------------------------------------------------------- the exact boundary of the old hypothesis *)
(* the one-element array around x adds 8 bytes: it has a faithful entry word (wf_size) exactly when x has one and
   its payload stays below 2^28 - 8 *)
Lemma payload_single x : lenN (payload (VArr [x])) = 8 + lenN (payload x).
Proof. rewrite arr_payload_len. cbn [sum_len fold_right]. change (lenN [x]) with 1. lia. Qed.

Theorem wf_size_single x : wf_size (VArr [x]) = (lenN (payload x) <? 268435448) && wf_size x.
Proof.
  cbn [wf_size forallb]. fold (payload (VArr [x])). rewrite payload_single, andb_true_r.
  change (lenN [x] <? 536870912) with true. cbn [andb]. f_equal.
  destruct (8 + lenN (payload x) <? 268435456) eqn:E1, (lenN (payload x) <? 268435448) eqn:E2; try reflexivity;
    [apply N.ltb_lt in E1; apply N.ltb_ge in E2|apply N.ltb_ge in E1; apply N.ltb_lt in E2]; lia.
Qed.

(* when is the result itself a value with faithful size fields (e.g. usable as an element of a larger document)? *)
Theorem distinct_result_size a : wfb a = true ->
  wf_size (array_distinct_t a) = match a with VArr _ => true | _ => lenN (payload a) <? 268435448 end.
Proof.
  intros W. destruct (arr_or_not a) as [[l ->]|Hn]; [apply distinct_wf; exact W|].
  unfold array_distinct_t. rewrite (items_single a Hn). cbn [distinct_acc existsb].
  rewrite wf_size_single, (wfb_size a W), andb_true_r. destruct a; try reflexivity. exfalso. apply (Hn l). reflexivity.
Qed.

(* the hypothesis was genuinely restrictive: a valid string document of 2^28 - 8 bytes is well-formed, its one-element
   array is not `wf_size` -- and the walkers still return exactly its encoding (set_functions_enc_any) *)
Lemma repeat_ascii_ok n : bytes_okb (repeat 97 n) = true /\ utf8_valid (repeat 97 n) = true.
Proof.
  induction n as [|n [IH1 IH2]]; [split; reflexivity|]. split.
  - cbn [repeat]. unfold bytes_okb in *. cbn [forallb]. rewrite IH1. reflexivity.
  - cbn [repeat]. rewrite <- IH2. reflexivity.
Qed.

Lemma size_hypothesis_was_restrictive_gen n : n = 268435448 ->
  exists a, wfb a = true /\ top_ok a /\ wf_size (array_distinct_t a) = false /\
            (forall buf, array_distinct_w (enc a) buf = Ok (buf ++ enc (array_distinct_t a))).
Proof.
  intros Hn. pose (s := repeat 97 (N.to_nat n)).
  assert (L : lenN s = n) by (unfold s, lenN; rewrite repeat_length; apply N2Nat.id).
  assert (W : wfb (VStr s) = true).
  { unfold wfb. cbn [wf_shape wf_size]. destruct (repeat_ascii_ok (N.to_nat n)) as [O U]. fold s in O, U.
    rewrite O, U, L, Hn. reflexivity. }
  assert (T : top_ok (VStr s)) by (unfold top_ok; cbn [top_count]; lia).
  exists (VStr s). split; [exact W|]. split; [exact T|]. split.
  - rewrite (distinct_result_size _ W). change (payload (VStr s)) with s. rewrite L, Hn. reflexivity.
  - intros buf. apply (set_functions_enc_any (VStr s) (VStr s) buf W T W T).
Qed.
Theorem size_hypothesis_was_restrictive :
  exists a, wfb a = true /\ top_ok a /\ wf_size (array_distinct_t a) = false /\
            (forall buf, array_distinct_w (enc a) buf = Ok (buf ++ enc (array_distinct_t a))).
Proof. exact (size_hypothesis_was_restrictive_gen 268435448 eq_refl). Qed.
