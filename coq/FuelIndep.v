(* FuelIndep.v — the fuel of the model is never what decides an answer (review item M6).
   Every recursive function of the model that is not structural runs on a fuel; the model passes S (length bs) (or the
   stated measure).  A theorem `f .. <> Err EFuel` only speaks about the functions whose exhaustion is the outcome
   Err EFuel; several return an ORDINARY value when the fuel runs out (None, Ok None, Ok buf, PErr, the input itself).
   For EVERY fuelled function this file states, on ARBITRARY inputs (no well-formedness, any buffer, any offsets):

        forall k, measure < k  ->  f k args = f (the fuel the model passes) args

   i.e. more fuel than the model passes never changes the answer, so the fuel the model passes is never decisive: the
   function is the unbounded loop of the code.  The *_indep lemmas are the two-fuel forms they follow from.
   Per property the statements are exported as Cxx_fuel_is_never_decisive in Props/Cxx.v. *)
From Coq Require Import List NArith ZArith Bool Lia.
Import ListNotations.
From JB Require Import Constants Bytes Utf8 Num Value Codec Decimal JsonText TreeOps Path PathParse Walk Iter CompareWalk Render RenderWalk CastWalk
  Serde SerdeWalk ContainWalk Builder EditWalk2 ComparableWalk.
From JB Require Import CodecProofs WalkProofs CastWalkProofs ExtraFuel19 PathParseFuel ExtraFuel04 RenderWalkProofs ContainWalkProofs ExtraFuel06
  Extra10 ExtraFuel14.
Open Scope N_scope.
Set Default Timeout 60.
Arguments N.land : simpl never. Arguments N.lor : simpl never. Arguments N.eqb : simpl never. Arguments N.ltb : simpl never.
Arguments N.leb : simpl never. Arguments N.add : simpl never. Arguments N.mul : simpl never. Arguments N.sub : simpl never.
Arguments be32 : simpl never. Arguments read_u32 : simpl never. Arguments slice : simpl never.

Lemma rd_none bs off : lenN bs < off + 4 -> read_u32 bs off = None.
Proof. intros H. destruct (read_u32 bs off) eqn:E; [|reflexivity]. apply read_u32_some in E. lia. Qed.

(* ================================================================ Walk.v: the count-driven loops (C05) *)
(* every iteration reads an entry word 4 bytes further on: the read fails before S (length bs) iterations are done *)
Lemma jbi_indep : forall k k' bs i len index joff voff,
  lenN bs < joff + 4 * N.of_nat k -> lenN bs < joff + 4 * N.of_nat k' ->
  jbi_loop k bs i len index joff voff = jbi_loop k' bs i len index joff voff.
Proof.
  induction k as [|k IH]; intros k' bs i len index joff voff H1 H2.
  - cbn [jbi_loop]. destruct k' as [|k']; [reflexivity|]. cbn [jbi_loop].
    destruct (i <? len); [|reflexivity]. rewrite rd_none by lia. reflexivity.
  - destruct k' as [|k'].
    + cbn [jbi_loop]. destruct (i <? len); [|reflexivity]. rewrite rd_none by lia. reflexivity.
    + cbn [jbi_loop]. destruct (i <? len); [|reflexivity]. destruct (read_u32 bs joff) as [e|]; [|reflexivity].
      destruct (JBI_ADVANCE i index); [|reflexivity]. unfold JBI_JSTEP. apply IH; lia.
Qed.
Theorem jbi_any_fuel k bs i len index joff voff : (length bs < k)%nat ->
  jbi_loop k bs i len index joff voff = jbi_loop (S (length bs)) bs i len index joff voff.
Proof. intros H. apply jbi_indep; unfold lenN; lia. Qed.

Lemma rd_words_indep : forall k k' bs i len j, (1 <= k)%nat -> (1 <= k')%nat ->
  lenN bs < j + 4 * N.of_nat k -> lenN bs < j + 4 * N.of_nat k' -> rd_words k bs i len j = rd_words k' bs i len j.
Proof.
  induction k as [|k IH]; intros k' bs i len j K1 K2 H1 H2; [lia|]. destruct k' as [|k']; [lia|]. cbn [rd_words].
  destruct (i <? len); [|reflexivity]. destruct (read_u32 bs j) as [w|] eqn:Rw; [|reflexivity].
  apply read_u32_some in Rw. rewrite (IH k' bs (i + 1) len (j + 4)); [reflexivity|lia|lia|lia|lia].
Qed.
Theorem rd_words_any_fuel k bs i len j : (length bs < k)%nat -> rd_words k bs i len j = rd_words (S (length bs)) bs i len j.
Proof. intros H. apply rd_words_indep; unfold lenN; lia. Qed.

Lemma values_indep : forall k k' bs i len joff voff, (1 <= k)%nat -> (1 <= k')%nat ->
  lenN bs < joff + 4 * N.of_nat k -> lenN bs < joff + 4 * N.of_nat k' ->
  values_loop k bs i len joff voff = values_loop k' bs i len joff voff.
Proof.
  induction k as [|k IH]; intros k' bs i len joff voff K1 K2 H1 H2; [lia|].
  destruct k' as [|k']; [lia|]. cbn [values_loop]. destruct (i <? len); [|reflexivity].
  destruct (read_u32 bs joff) as [e|] eqn:R; [|reflexivity]. apply read_u32_some in R.
  destruct (extract_by_jentry_w e voff bs); cbn [bind]; try reflexivity.
  unfold AVS_JSTEP. rewrite (IH k'); [reflexivity|lia|lia|lia|lia].
Qed.
Theorem values_any_fuel k bs i len joff voff : (length bs < k)%nat ->
  values_loop k bs i len joff voff = values_loop (S (length bs)) bs i len joff voff.
Proof. intros H. apply values_indep; unfold lenN; lia. Qed.

(* ================================================================ Iter.v: the lazy iterators, for ANY step / fin (C06, C12, C13) *)
Section IterFolds.
  Context {St R : Type}.
  Variable bs : list N.
  Lemma arr_fold_indep (step : St -> je -> list N -> res (St + R)) fin : forall k k' idx len joff voff s,
    (1 <= k)%nat -> (1 <= k')%nat -> lenN bs < joff + 4 * N.of_nat k -> lenN bs < joff + 4 * N.of_nat k' ->
    arr_fold bs step fin k idx len joff voff s = arr_fold bs step fin k' idx len joff voff s.
  Proof.
    induction k as [|k IH]; intros k' idx len joff voff s K1 K2 H1 H2; [lia|]. destruct k' as [|k']; [lia|].
    cbn [arr_fold]. destruct (len <=? idx); [reflexivity|].
    destruct (read_u32 bs joff) as [w|] eqn:Rd; [|reflexivity]. apply read_u32_some in Rd.
    destruct (slice bs voff (je_len w)); [|reflexivity].
    destruct (step s (decode_je w) l) as [[s'|r]|e|]; cbn [bind]; try reflexivity.
    unfold ITER_ARR_JSTEP. apply IH; lia.
  Qed.
  Lemma keys_fold_indep (step : St -> list N -> res (St + R)) fin : forall k k' idx len joff koff s,
    (1 <= k)%nat -> (1 <= k')%nat -> lenN bs < joff + 4 * N.of_nat k -> lenN bs < joff + 4 * N.of_nat k' ->
    keys_fold bs step fin k idx len joff koff s = keys_fold bs step fin k' idx len joff koff s.
  Proof.
    induction k as [|k IH]; intros k' idx len joff koff s K1 K2 H1 H2; [lia|]. destruct k' as [|k']; [lia|].
    cbn [keys_fold]. destruct (len <=? idx); [reflexivity|].
    destruct (read_u32 bs joff) as [w|] eqn:Rd; [|reflexivity]. apply read_u32_some in Rd.
    destruct (slice bs koff (je_len w)); [|reflexivity].
    destruct (step s l) as [[s'|r]|e|]; cbn [bind]; try reflexivity.
    unfold ITER_KEYS_JSTEP. apply IH; lia.
  Qed.
  Theorem arr_fold_any_fuel (step : St -> je -> list N -> res (St + R)) fin k idx len joff voff s : (length bs < k)%nat ->
    arr_fold bs step fin k idx len joff voff s = arr_fold bs step fin (S (length bs)) idx len joff voff s.
  Proof. intros H. apply arr_fold_indep; unfold lenN; lia. Qed.
  Theorem keys_fold_any_fuel (step : St -> list N -> res (St + R)) fin k idx len joff koff s : (length bs < k)%nat ->
    keys_fold bs step fin k idx len joff koff s = keys_fold bs step fin (S (length bs)) idx len joff koff s.
  Proof. intros H. apply keys_fold_indep; unfold lenN; lia. Qed.
End IterFolds.

(* ================================================================ JsonText.v: the JSON text parser (C02) *)
Lemma skip_indep : forall k k' bs, (length bs < k)%nat -> (length bs < k')%nat -> skip_unused_fuel k bs = skip_unused_fuel k' bs.
Proof.
  induction k as [|k IH]; intros k' bs H1 H2; [lia|]. destruct k' as [|k']; [lia|]. cbn [skip_unused_fuel].
  destruct bs as [|c r]; [reflexivity|]. cbn [length] in *. destruct (is_ws c); [apply IH; lia|].
  destruct (c =? 92); [|reflexivity]. destruct r as [|x r1]; [reflexivity|]. cbn [length] in *.
  destruct ((x =? 110) || (x =? 114) || (x =? 116))%bool; [apply IH; lia|].
  destruct x as [|px]; try reflexivity.
  repeat (match goal with |- context [match ?l with [] => _ | _ :: _ => _ end] => destruct l; try reflexivity
          | |- context [match ?n with 0 => _ | N.pos _ => _ end] => destruct n; try reflexivity
          | |- context [match ?p with xH => _ | xO _ => _ | xI _ => _ end] => destruct p; try reflexivity end).
  all: cbn [length] in *; apply IH; lia.
Qed.
Theorem skip_unused_any_fuel k bs : (length bs < k)%nat -> skip_unused_fuel k bs = skip_unused bs.
Proof. intros H. apply skip_indep; [exact H|lia]. Qed.

Lemma scan_string_indep : forall k k' bs acc esc, (length bs < k)%nat -> (length bs < k')%nat ->
  scan_string k bs acc esc = scan_string k' bs acc esc.
Proof.
  induction k as [|k IH]; intros k' bs acc esc H1 H2; [lia|]. destruct k' as [|k']; [lia|]. cbn [scan_string].
  destruct bs as [|c r]; [reflexivity|]. cbn [length] in *. destruct (c =? 92).
  - destruct r as [|n r']; [reflexivity|]. cbn [length] in *. destruct (n =? 117).
    + destruct r' as [|m r'']; [reflexivity|].
      assert (L : forall j, (length (skipn j (m :: r'')) <= length (m :: r''))%nat) by (intros j; rewrite skipn_length; lia).
      cbn [length] in *. apply IH; [specialize (L (if m =? 123 then 6%nat else 4%nat)); cbn [length] in L; lia|specialize (L (if m =? 123 then 6%nat else 4%nat)); cbn [length] in L; lia].
    + apply IH; lia.
  - destruct (c =? 34); [reflexivity|]. apply IH; lia.
Qed.
Theorem scan_string_any_fuel k bs acc esc : (length bs < k)%nat -> scan_string k bs acc esc = scan_string (S (length bs)) bs acc esc.
Proof. intros H. apply scan_string_indep; [exact H|lia]. Qed.

Lemma parse_string_fuel_indep : forall k k' data buf, (length data < k)%nat -> (length data < k')%nat ->
  parse_string_fuel k data buf = parse_string_fuel k' data buf.
Proof.
  induction k as [|k IH]; intros k' data buf H1 H2; [lia|]. destruct k' as [|k']; [lia|]. cbn [parse_string_fuel].
  destruct data as [|b r]; [reflexivity|]. cbn [length] in *. destruct (b =? 92); [|apply IH; lia].
  destruct (parse_escaped_string r) as [[r' chunk]|e|] eqn:E; cbn [bind]; try reflexivity.
  apply parse_escaped_len in E. apply IH; lia.
Qed.
Theorem parse_string_any_fuel k data : (length data < k)%nat -> parse_string_fuel k data [] = parse_string data.
Proof. intros H. apply parse_string_fuel_indep; [exact H|lia]. Qed.

Section LoopsIndep.
  Variable pv pv' : list N -> res (value * list N).
  Variable n : nat.
  Hypothesis Hpv : forall b, (length b <= n)%nat -> pv b = pv' b.
  Hypothesis Hdec : forall b v r, pv' b = Ok (v, r) -> (length r < length b)%nat.
  Lemma arr_loop_indep : forall k k' first acc bs, (length bs <= n)%nat -> (length bs < k)%nat -> (length bs < k')%nat ->
    arr_loop pv k first acc bs = arr_loop pv' k' first acc bs.
  Proof.
    induction k as [|k IH]; intros k' first acc bs Hn H1 H2; [lia|]. destruct k' as [|k']; [lia|]. cbn [arr_loop].
    pose proof (skip_len bs) as L. destruct (skip_unused bs) as [|c r]; [reflexivity|]. cbn [length] in L.
    destruct (c =? 93); [reflexivity|].
    assert (G : forall b, (length b <= S (length r))%nat ->
              (do (v, bs'') <- pv b; arr_loop pv k false (v :: acc) bs'') = (do (v, bs'') <- pv' b; arr_loop pv' k' false (v :: acc) bs'')).
    { intros b Hb. rewrite (Hpv b) by lia. destruct (pv' b) as [[v bs'']|e|] eqn:E; cbn [bind]; try reflexivity.
      apply Hdec in E. apply IH; lia. }
    destruct first; [apply G; cbn [length]; lia|]. destruct (c =? 44); [apply G; lia|reflexivity].
  Qed.
  Lemma obj_loop_indep : forall k k' first acc bs, (length bs <= n)%nat -> (length bs < k)%nat -> (length bs < k')%nat ->
    obj_loop pv k first acc bs = obj_loop pv' k' first acc bs.
  Proof.
    induction k as [|k IH]; intros k' first acc bs Hn H1 H2; [lia|]. destruct k' as [|k']; [lia|]. cbn [obj_loop].
    pose proof (skip_len bs) as L. destruct (skip_unused bs) as [|c r]; [reflexivity|]. cbn [length] in L.
    destruct (c =? 125); [reflexivity|].
    assert (G : forall b, (length b <= S (length r))%nat ->
              (do (key, bs1) <- pv b;
               match key with
               | VStr ks => match skip_unused bs1 with
                            | 58 :: bs2 => do (v, bs3) <- pv bs2; obj_loop pv k false (assoc_insert ks v acc) bs3
                            | _ => Err EOther end
               | _ => Err EOther end)
            = (do (key, bs1) <- pv' b;
               match key with
               | VStr ks => match skip_unused bs1 with
                            | 58 :: bs2 => do (v, bs3) <- pv' bs2; obj_loop pv' k' false (assoc_insert ks v acc) bs3
                            | _ => Err EOther end
               | _ => Err EOther end)).
    { intros b Hb. rewrite (Hpv b) by lia. destruct (pv' b) as [[key bs1]|e|] eqn:E; cbn [bind]; try reflexivity.
      apply Hdec in E. destruct key; try reflexivity.
      pose proof (skip_len bs1) as L1. destruct (skip_unused bs1) as [|c1 bs2]; [reflexivity|]. cbn [length] in L1.
      destruct c1 as [|p]; [reflexivity|].
      do 6 (destruct p as [p|p|]; try reflexivity).
      rewrite (Hpv bs2) by lia. destruct (pv' bs2) as [[v bs3]|e|] eqn:E2; cbn [bind]; try reflexivity.
      apply Hdec in E2. apply IH; lia. }
    destruct first; [apply G; cbn [length]; lia|]. destruct (c =? 44); [apply G; lia|reflexivity].
  Qed.
End LoopsIndep.

Lemma parse_json_value_indep : forall k k' bs, (length bs < k)%nat -> (length bs < k')%nat ->
  parse_json_value k bs = parse_json_value k' bs.
Proof.
  induction k as [|k IH]; intros k' bs H1 H2; [lia|]. destruct k' as [|k']; [lia|]. cbn [parse_json_value].
  pose proof (skip_len bs) as L. destruct (skip_unused bs) as [|c r]; [reflexivity|]. cbn [length] in L.
  destruct (c =? 110); [reflexivity|]. destruct (c =? 116); [reflexivity|]. destruct (c =? 102); [reflexivity|].
  destruct (is_digit c || (c =? 45)); [reflexivity|]. destruct (c =? 34); [reflexivity|].
  destruct (c =? 91).
  { apply (arr_loop_indep _ _ (length r)); [intros b Hb; apply IH; lia|intros b v r0; apply pv_dec|lia|lia|lia]. }
  destruct (c =? 123); [|reflexivity].
  apply (obj_loop_indep _ _ (length r)); [intros b Hb; apply IH; lia|intros b v r0; apply pv_dec|lia|lia|lia].
Qed.
Theorem parse_json_value_any_fuel k bs : (length bs < k)%nat -> parse_json_value k bs = parse_json_value (S (length bs)) bs.
Proof. intros H. apply parse_json_value_indep; [exact H|lia]. Qed.

(* ================================================================ Num.v / Decimal.v: digit loops (C03, C02) *)
(* itoa: one digit per unit of fuel.  dec_digits runs on the CONSTANT fuel 40: enough for every n < 10^40, in particular
   for every u64 and the magnitude of every i64 (at most 20 digits), which is all the decoders and the text parser
   produce; a hand-made NUInt beyond 10^40 would be cut (digits_fuel_cut_example) *)
Lemma digits_fuel_indep : forall k k' n acc, (1 <= k)%nat -> (1 <= k')%nat -> n < 10 ^ N.of_nat k -> n < 10 ^ N.of_nat k' ->
  digits_fuel k n acc = digits_fuel k' n acc.
Proof.
  induction k as [|k IH]; intros k' n acc K1 K2 H1 H2; [lia|]. destruct k' as [|k']; [lia|]. cbn [digits_fuel].
  destruct (n <? 10) eqn:E; [reflexivity|]. apply N.ltb_ge in E.
  rewrite Nat2N.inj_succ, N.pow_succ_r' in H1, H2.
  assert (Q1 : n / 10 < 10 ^ N.of_nat k) by (apply N.div_lt_upper_bound; lia).
  assert (Q2 : n / 10 < 10 ^ N.of_nat k') by (apply N.div_lt_upper_bound; lia).
  assert (1 <= n / 10) by (apply N.div_le_lower_bound; lia).
  destruct k as [|k]; [cbn in Q1; lia|]. destruct k' as [|k']; [cbn in Q2; lia|].
  apply IH; [lia|lia|exact Q1|exact Q2].
Qed.
Theorem dec_digits_any_fuel k n : (40 <= k)%nat -> n < 10 ^ 40 -> digits_fuel k n [] = dec_digits n.
Proof.
  intros Hk Hn. unfold dec_digits. apply digits_fuel_indep; [lia|lia| |exact Hn].
  apply N.lt_le_trans with (10 ^ 40); [exact Hn|]. apply N.pow_le_mono_r; lia.
Qed.
Corollary dec_digits_any_fuel_u64 k n : (40 <= k)%nat -> n < two64 -> digits_fuel k n [] = dec_digits n.
Proof. intros Hk Hn. apply dec_digits_any_fuel; [exact Hk|]. unfold two64 in Hn. lia. Qed.
Example digits_fuel_cut_example : digits_fuel 40 (10 ^ 40) [] <> digits_fuel 41 (10 ^ 40) [].
Proof. vm_compute. discriminate. Qed.

(* ndigits: fuel S (log2 m); each step divides by 10 *)
Lemma ndigits_fuel_indep : forall k k' m, (1 <= k)%nat -> (1 <= k')%nat -> (m < 2 ^ Z.of_nat k)%Z -> (m < 2 ^ Z.of_nat k')%Z ->
  ndigits_fuel k m = ndigits_fuel k' m.
Proof.
  induction k as [|k IH]; intros k' m K1 K2 H1 H2; [lia|]. destruct k' as [|k']; [lia|]. cbn [ndigits_fuel].
  destruct (m <? 10)%Z eqn:E; [reflexivity|]. apply Z.ltb_ge in E.
  rewrite Nat2Z.inj_succ, Z.pow_succ_r in H1, H2 by lia.
  assert (Q1 : (m / 10 < 2 ^ Z.of_nat k)%Z) by (apply Z.div_lt_upper_bound; lia).
  assert (Q2 : (m / 10 < 2 ^ Z.of_nat k')%Z) by (apply Z.div_lt_upper_bound; lia).
  assert (1 <= m / 10)%Z by (apply Z.div_le_lower_bound; lia).
  destruct k as [|k]; [cbn in Q1; lia|]. destruct k' as [|k']; [cbn in Q2; lia|].
  f_equal. apply IH; [lia|lia|exact Q1|exact Q2].
Qed.
Theorem ndigits_any_fuel k m : (Z.log2 m < Z.of_nat k)%Z -> ndigits_fuel k m = ndigits m.
Proof.
  intros Hk. unfold ndigits. pose proof (Z.log2_nonneg m) as L0.
  destruct (Z.leb_spec m 0) as [Hm|Hm].
  - destruct k as [|k]; [lia|]. cbn [ndigits_fuel]. replace (m <? 10)%Z with true by (symmetry; apply Z.ltb_lt; lia). reflexivity.
  - pose proof (Z.log2_spec m Hm) as [_ Hs].
    assert (P : forall j, (Z.log2 m < j)%Z -> (m < 2 ^ j)%Z).
    { intros j Hj. apply Z.lt_le_trans with (2 ^ Z.succ (Z.log2 m))%Z; [exact Hs|]. apply Z.pow_le_mono_r; lia. }
    apply ndigits_fuel_indep; [lia|lia|apply P; lia|apply P; lia].
Qed.

(* ================================================================ TreeOps.v: delete_by_keypath (C06) *)
(* one unit per key-path element *)
Lemma del_keypath_indep : forall k k' v ks, (length ks < k)%nat -> (length ks < k')%nat -> del_keypath k v ks = del_keypath k' v ks.
Proof.
  induction k as [|k IH]; intros k' v ks H1 H2; [lia|]. destruct k' as [|k']; [lia|]. cbn [del_keypath].
  destruct v; try reflexivity; destruct ks as [|[i|n|n] r]; try reflexivity; cbn [length] in *.
  - destruct (DKP_T_SKIP _ _); [reflexivity|]. destruct r; [reflexivity|]. destruct (nth_opt _ _) as [x|]; [|reflexivity].
    destruct (is_container x); [|reflexivity]. rewrite (IH k'); [reflexivity|cbn [length] in *; lia|cbn [length] in *; lia].
  - destruct r; [reflexivity|]. destruct (assoc_lookup n _) as [x|]; [|reflexivity].
    destruct (is_container x); [|reflexivity]. rewrite (IH k'); [reflexivity|cbn [length] in *; lia|cbn [length] in *; lia].
  - destruct r; [reflexivity|]. destruct (assoc_lookup n _) as [x|]; [|reflexivity].
    destruct (is_container x); [|reflexivity]. rewrite (IH k'); [reflexivity|cbn [length] in *; lia|cbn [length] in *; lia].
Qed.
Theorem del_keypath_any_fuel k v ks : (length ks < k)%nat -> del_keypath k v ks = del_keypath (S (length ks)) v ks.
Proof. intros H. apply del_keypath_indep; [exact H|lia]. Qed.

(* ================================================================ PathParse.v: key paths and JSONPath (C06, C09) *)
Lemma scan_name_indep stop : forall k k' bs acc esc, (length bs < k)%nat -> (length bs < k')%nat ->
  scan_name k stop bs acc esc = scan_name k' stop bs acc esc.
Proof.
  induction k as [|k IH]; intros k' bs acc esc H1 H2; [lia|]. destruct k' as [|k']; [lia|]. cbn [scan_name].
  destruct bs as [|c r]; [reflexivity|]. destruct (c =? 92).
  - destruct (check_escaped (c :: r)) as [[consumed rest]|] eqn:E; [|reflexivity]. apply check_escaped_le in E. apply IH; lia.
  - destruct (stop c); [reflexivity|]. cbn [length] in *. apply IH; lia.
Qed.
Theorem scan_name_any_fuel stop k bs acc esc : (length bs < k)%nat ->
  scan_name k stop bs acc esc = scan_name (S (length bs)) stop bs acc esc.
Proof. intros H. apply scan_name_indep; [exact H|lia]. Qed.

(* the repetition combinators, for ANY element parser that returns a rest no longer than its input (every parser of the
   model does: PathParseFuel.shr_...): an iteration that consumes nothing stops the loop, the others consume a byte *)
Section Comb.
  Context {A : Type}.
  Variable f : list N -> pres A.
  Hypothesis Hf : forall bs, le_res (length bs) (f bs).
  Lemma many0_indep : forall k k' bs acc, (length bs < k)%nat -> (length bs < k')%nat ->
    many0 f k bs acc = many0 f k' bs acc.
  Proof.
    induction k as [|k IH]; intros k' bs acc H1 H2; [lia|]. destruct k' as [|k']; [lia|]. cbn [many0].
    pose proof (Hf bs) as L. destruct (f bs) as [r a| | |]; try reflexivity. cbn [le_res] in L.
    destruct (length r =? length bs)%nat eqn:E; [reflexivity|]. apply Nat.eqb_neq in E. apply IH; lia.
  Qed.
  Theorem many0_any_fuel k bs acc : (length bs < k)%nat -> many0 f k bs acc = many0 f (S (length bs)) bs acc.
  Proof. intros H. apply many0_indep; [exact H|lia]. Qed.
  Variable sep : list N -> pres unit.
  Hypothesis Hs : forall bs, le_res (length bs) (sep bs).
  Lemma sep_loop_indep : forall k k' bs acc, (length bs < k)%nat -> (length bs < k')%nat ->
    sep_loop f sep k bs acc = sep_loop f sep k' bs acc.
  Proof.
    induction k as [|k IH]; intros k' bs acc H1 H2; [lia|]. destruct k' as [|k']; [lia|]. cbn [sep_loop].
    pose proof (Hs bs) as L. destruct (sep bs) as [r1 u| | |]; try reflexivity. cbn [le_res] in L.
    destruct (length r1 =? length bs)%nat eqn:E; [reflexivity|]. apply Nat.eqb_neq in E.
    pose proof (Hf r1) as L2. destruct (f r1) as [r2 a| | |]; try reflexivity. cbn [le_res] in L2. apply IH; lia.
  Qed.
  Theorem sep_loop_any_fuel k bs acc : (length bs < k)%nat -> sep_loop f sep k bs acc = sep_loop f sep (S (length bs)) bs acc.
  Proof. intros H. apply sep_loop_indep; [exact H|lia]. Qed.
End Comb.

(* ================================================================ CompareWalk.v: compare (C04) *)
Lemma bind_ext {A B} (r : res A) (f g : A -> res B) : (forall a, r = Ok a -> f a = g a) -> bind r f = bind r g.
Proof. intros H. destruct r; cbn [bind]; [apply H; reflexivity|reflexivity|reflexivity]. Qed.

Section CompareInner.
  Variable L R : list N.
  Variable sc sc' : N -> N -> N -> N -> res comparison.
  Variable lb : N.
  Hypothesis Hsc : forall lw lo rw ro, lb <= lo -> lo <= lenN L -> sc lw lo rw ro = sc' lw lo rw ro.

  (* the loop over the elements: each iteration reads an entry word of L 4 bytes further on *)
  Lemma arr_loop_w_indep : forall k k' i len joff rb lvo rvo llen rlen, (1 <= k)%nat -> (1 <= k')%nat ->
    lenN L < lb + joff + 4 * N.of_nat k -> lenN L < lb + joff + 4 * N.of_nat k' ->
    arr_loop_w L R sc k i len joff lb rb lvo rvo llen rlen = arr_loop_w L R sc' k' i len joff lb rb lvo rvo llen rlen.
  Proof.
    induction k as [|k IH]; intros k' i len joff rb lvo rvo llen rlen K1 K2 H1 H2; [lia|]. destruct k' as [|k']; [lia|].
    cbn [arr_loop_w]. destruct (i <? len); [|reflexivity].
    apply bind_ext. intros lw Elw. apply rd_ok in Elw.
    apply bind_ext. intros rw _. apply bind_ext. intros u Ef. apply from_ok_le in Ef. apply bind_ext. intros u' _.
    rewrite (Hsc lw (lb + lvo) rw (rb + rvo)) by lia. apply bind_ext. intros o _.
    destruct o; try reflexivity. apply IH; unfold CMA_JSTEP; lia.
  Qed.
  Lemma obj_loop_w_ext : forall lkws rkws ljo rjo rb lko rko lvo rvo llen rlen,
    obj_loop_w L R sc lkws rkws ljo rjo lb rb lko rko lvo rvo llen rlen = obj_loop_w L R sc' lkws rkws ljo rjo lb rb lko rko lvo rvo llen rlen.
  Proof.
    induction lkws as [|lk lks IH]; intros rkws ljo rjo rb lko rko lvo rvo llen rlen; [reflexivity|].
    destruct rkws as [|rk rks]; [reflexivity|]. cbn [obj_loop_w].
    apply bind_ext. intros u Ef. apply from_ok_le in Ef. apply bind_ext. intros u' _.
    rewrite (Hsc lk (lb + lko) rk (rb + rko)) by lia. apply bind_ext. intros ko _. destruct ko; try reflexivity.
    apply bind_ext. intros lw _. apply bind_ext. intros rw _.
    apply bind_ext. intros u2 Ef2. apply from_ok_le in Ef2. apply bind_ext. intros u3 _.
    rewrite (Hsc lw (lb + lvo) rw (rb + rvo)) by lia. apply bind_ext. intros vo _. destruct vo; try reflexivity. apply IH.
  Qed.
End CompareInner.
Theorem arr_loop_w_any_fuel L R sc k i len joff lb rb lvo rvo llen rlen : (length L < k)%nat ->
  arr_loop_w L R sc k i len joff lb rb lvo rvo llen rlen = arr_loop_w L R sc (S (length L)) i len joff lb rb lvo rvo llen rlen.
Proof. intros H. apply (arr_loop_w_indep L R sc sc lb); [reflexivity|lia|lia|unfold lenN; lia|unfold lenN; lia]. Qed.

Lemma compare_container_w_ext L R sc sc' lo ro :
  (forall lw lo' rw ro', lo + 4 <= lo' -> lo' <= lenN L -> sc lw lo' rw ro' = sc' lw lo' rw ro') ->
  compare_container_w L R sc lo ro = compare_container_w L R sc' lo ro.
Proof.
  intros Hsc. unfold compare_container_w. apply bind_ext. intros lh _. apply bind_ext. intros rh _. cbv zeta.
  repeat match goal with |- (if ?c then _ else _) = _ => destruct c end; try reflexivity.
  - unfold compare_array_w. cbv zeta. apply (arr_loop_w_indep L R sc sc' (lo + CMP_ARR_LSKIP));
      [intros; apply Hsc; unfold CMP_ARR_LSKIP in *; lia|lia|lia|unfold lenN; lia|unfold lenN; lia].
  - unfold compare_object_w. cbv zeta. apply bind_ext. intros lkws _. apply bind_ext. intros rkws _.
    apply (obj_loop_w_ext L R sc sc' (lo + CMP_OBJ_LSKIP)). intros; apply Hsc; unfold CMP_OBJ_LSKIP in *; lia.
Qed.

(* the nesting: one unit per level; the payload offset in L grows by at least 4 per level and stays in bounds *)
Lemma compare_scalar_w_indep : forall k k' L R lw lo rw ro, (1 <= k)%nat -> (1 <= k')%nat ->
  lenN L < lo + N.of_nat k -> lenN L < lo + N.of_nat k' ->
  compare_scalar_w k L R lw lo rw ro = compare_scalar_w k' L R lw lo rw ro.
Proof.
  induction k as [|k IH]; intros k' L R lw lo rw ro K1 K2 H1 H2; [lia|]. destruct k' as [|k']; [lia|].
  cbn [compare_scalar_w]. cbv zeta.
  destruct (negb (jlevel lw =? jlevel rw)); [reflexivity|].
  destruct ((je_type lw =? NULL_TAG) && (je_type rw =? NULL_TAG)); [reflexivity|].
  destruct ((je_type lw =? CONTAINER_TAG) && (je_type rw =? CONTAINER_TAG)); [|reflexivity].
  apply compare_container_w_ext. intros lw' lo' rw' ro' A B. apply IH; lia.
Qed.
Theorem compare_scalar_w_any_fuel k L R lw lo rw ro : (length L + length R < k)%nat ->
  compare_scalar_w k L R lw lo rw ro = compare_scalar_w (S (length L + length R)) L R lw lo rw ro.
Proof. intros H. apply compare_scalar_w_indep; unfold lenN; lia. Qed.

(* ================================================================ RenderWalk.v: to_string / to_pretty_string (C03) *)
(* the index-by-index form of escape_scalar_string: `value[i]` panics once i reaches the end of the buffer *)
Lemma esc_index_loop_indep : forall k k' V i stop last, (1 <= k)%nat -> (1 <= k')%nat ->
  lenN V < i + N.of_nat k -> lenN V < i + N.of_nat k' -> esc_index_loop k V i stop last = esc_index_loop k' V i stop last.
Proof.
  induction k as [|k IH]; intros k' V i stop last K1 K2 H1 H2; [lia|]. destruct k' as [|k']; [lia|]. cbn [esc_index_loop].
  destruct (i <? stop); [|reflexivity]. destruct (slice V i 1) as [[|b r]|] eqn:Es; try reflexivity.
  assert (Hi : i + 1 <= lenN V).
  { unfold slice in Es. destruct (i + 1 <=? lenN V) eqn:E; [apply N.leb_le; exact E|discriminate Es]. }
  destruct (escapes b).
  - apply bind_ext. intros seg _. rewrite (IH k' V (i + 1) stop (i + 1)) by lia. reflexivity.
  - apply IH; lia.
Qed.
Theorem esc_index_loop_any_fuel k V i stop last : (length V < k)%nat ->
  esc_index_loop k V i stop last = esc_index_loop (S (length V)) V i stop last.
Proof. intros H. apply esc_index_loop_indep; unfold lenN; lia. Qed.

Section RenderInner.
  Variable V : list N.
  Variable pretty : bool.
  Variable sc sc' : nat -> N -> N -> res (list N * N).
  Variable J : N.
  Hypothesis Hok : forall ind j v r, sc' ind j v = Ok r -> j + 4 <= lenN V.
  Hypothesis Hsc : forall ind j v, J <= j -> j + 4 <= v -> sc ind j v = sc' ind j v.

  Lemma arr_str_loop_indep : forall k k' ind i len j v, (1 <= k)%nat -> (1 <= k')%nat ->
    lenN V < j + 4 * N.of_nat k -> lenN V < j + 4 * N.of_nat k' -> J <= j -> j + 4 * (len - i) <= v ->
    arr_str_loop pretty sc k ind i len j v = arr_str_loop pretty sc' k' ind i len j v.
  Proof.
    induction k as [|k IH]; intros k' ind i len j v K1 K2 H1 H2 Hj Hv; [lia|]. destruct k' as [|k']; [lia|].
    cbn [arr_str_loop]; unfold STS_JSTEP. destruct (i <? len) eqn:E; [|reflexivity]. apply N.ltb_lt in E.
    rewrite (Hsc (ind + 2)%nat j v Hj) by lia.
    destruct (sc' (ind + 2)%nat j v) as [[t l]|e|] eqn:Es; cbn [bind]; try reflexivity.
    pose proof (Hok _ _ _ _ Es) as B1.
    rewrite (IH k' ind (i + 1) len (j + 4) (v + l)) by lia. reflexivity.
  Qed.
  Lemma obj_str_loop_ext : forall kws ind i j koff v, J <= j -> j + 4 * lenN kws <= v ->
    obj_str_loop V pretty sc kws ind i j koff v = obj_str_loop V pretty sc' kws ind i j koff v.
  Proof.
    induction kws as [|kw r IH]; intros ind i j koff v Hj Hv; cbn [obj_str_loop]; [reflexivity|]. unfold STS_JSTEP.
    rewrite lenN_cons in Hv. apply bind_ext. intros kt _.
    rewrite (Hsc (ind + 2)%nat j v Hj) by lia.
    destruct (sc' (ind + 2)%nat j v) as [[t l]|e|] eqn:Es; cbn [bind]; try reflexivity.
    rewrite (IH ind (i + 1) (j + 4) (koff + je_len kw) (v + l)) by lia. reflexivity.
  Qed.
End RenderInner.
Theorem arr_str_loop_any_fuel (V : list N) pretty sc k ind i len j v :
  (forall ind j v r, sc ind j v = Ok r -> j + 4 <= lenN V) -> j + 4 * (len - i) <= v -> (length V < k)%nat ->
  arr_str_loop pretty sc k ind i len j v = arr_str_loop pretty sc (S (length V)) ind i len j v.
Proof.
  intros Hok Hv H. apply (arr_str_loop_indep V pretty sc sc 0 Hok); [reflexivity|lia|lia|unfold lenN; lia|unfold lenN; lia|lia|exact Hv].
Qed.

Lemma container_str_w_ext V pretty sc sc' ind off :
  (forall ind j v r, sc' ind j v = Ok r -> j + 4 <= lenN V) ->
  (off + 4 <= lenN V -> forall ind j v, 4 + off <= j -> j + 4 <= v -> sc ind j v = sc' ind j v) ->
  container_str_w V pretty sc ind off = container_str_w V pretty sc' ind off.
Proof.
  intros Hok Hsc. unfold container_str_w, CTS_SC_JOFF, CTS_SC_VOFF, CTS_ARR_JOFF, CTS_ARR_VOFF, CTS_OBJ_JOFF, CTS_OBJ_KOFF, CTS_OBJ_JSTEP, CTS_OBJ_VOFF.
  destruct (read_u32 V off) as [h|] eqn:RH; [|reflexivity]. specialize (Hsc (read_u32_bound _ _ _ RH)).
  destruct (hdr_type h =? SCALAR_CONTAINER_TAG).
  { rewrite (Hsc ind (4 + off) (8 + off)) by lia. reflexivity. }
  destruct (hdr_type h =? ARRAY_CONTAINER_TAG).
  { rewrite (arr_str_loop_indep V pretty sc sc' (4 + off) Hok Hsc (S (length V)) (S (length V)) ind 0 (hdr_len h) (4 + off) (4 + off + 4 * hdr_len h))
      by (unfold lenN; lia). reflexivity. }
  destruct (hdr_type h =? OBJECT_CONTAINER_TAG); [|reflexivity].
  destruct (rd_words (S (length V)) V 0 (hdr_len h) (4 + off)) as [kws|] eqn:RK; [|reflexivity].
  pose proof (rd_words_len _ _ _ _ _ _ RK) as LK.
  rewrite (obj_str_loop_ext V pretty sc sc' (4 + off) Hok Hsc kws ind 0 (4 + off + 4 * hdr_len h) (4 + off + 8 * hdr_len h)
             (4 + off + 8 * hdr_len h + sum_je_len kws)) by lia. reflexivity.
Qed.

(* the nesting: every nested header lies at least 4 bytes after the entry word of its parent *)
Lemma scalar_str_w_indep pf V pretty : forall k k' ind j v, (1 <= k)%nat -> (1 <= k')%nat ->
  lenN V < j + 4 * N.of_nat k -> lenN V < j + 4 * N.of_nat k' -> j + 4 <= v ->
  scalar_str_w pf V pretty k ind j v = scalar_str_w pf V pretty k' ind j v.
Proof.
  induction k as [|k IH]; intros k' ind j v K1 K2 H1 H2 Hv; [lia|]. destruct k' as [|k']; [lia|]. cbn [scalar_str_w].
  destruct (read_u32 V j) as [w|] eqn:RW; [|reflexivity]. cbv zeta. f_equal.
  destruct (je_type w =? NULL_TAG); [reflexivity|]. destruct (je_type w =? TRUE_TAG); [reflexivity|].
  destruct (je_type w =? FALSE_TAG); [reflexivity|]. destruct (je_type w =? NUMBER_TAG); [reflexivity|].
  destruct (je_type w =? STRING_TAG); [reflexivity|]. destruct (je_type w =? CONTAINER_TAG); [|reflexivity].
  apply container_str_w_ext.
  - intros ind' j' v' r. apply scalar_ok_read.
  - intros Hb ind' j' v' Hj' Hv'. apply IH; lia.
Qed.
Theorem scalar_str_w_any_fuel pf V pretty k ind j v : (length V < k)%nat -> j + 4 <= v ->
  scalar_str_w pf V pretty k ind j v = scalar_str_w pf V pretty (S (length V)) ind j v.
Proof. intros H Hv. apply scalar_str_w_indep; unfold lenN; try lia. Qed.
(* the whole walk: container_to_string(value, &mut 0, ..) at any nesting fuel above the buffer length is render_w *)
Theorem render_w_any_fuel pf V pretty k : (length V < k)%nat ->
  container_str_w V pretty (scalar_str_w pf V pretty k) 0 0 = render_w pf V pretty.
Proof.
  intros H. unfold render_w. apply container_str_w_ext.
  - intros ind j v r. apply scalar_ok_read.
  - intros _ ind j v Hj Hv. apply scalar_str_w_indep; unfold lenN; lia.
Qed.

(* ================================================================ CastWalk.v: traverse_check_string (C05) *)
Lemma tcs_entries_indep func bs : forall k k' i size joff voff back, (1 <= k)%nat -> (1 <= k')%nat ->
  lenN bs < joff + 4 * N.of_nat k -> lenN bs < joff + 4 * N.of_nat k' ->
  tcs_entries k func bs i size joff voff back = tcs_entries k' func bs i size joff voff back.
Proof.
  induction k as [|k IH]; intros k' i size joff voff back K1 K2 H1 H2; [lia|]. destruct k' as [|k']; [lia|].
  cbn [tcs_entries]. destruct (i <? size); [|reflexivity].
  destruct (read_u32 bs joff) as [e|] eqn:Er; [|reflexivity]. apply read_u32_some in Er. cbv zeta.
  destruct (je_type e =? CONTAINER_TAG); [apply IH; lia|].
  destruct (je_type e =? STRING_TAG); [|apply IH; lia].
  destruct (slice bs voff (je_len e)) as [s|]; [|reflexivity]. destruct (func s); [reflexivity|apply IH; lia].
Qed.
Theorem tcs_entries_any_fuel func bs k i size joff voff back : (length bs < k)%nat ->
  tcs_entries k func bs i size joff voff back = tcs_entries (S (length bs)) func bs i size joff voff back.
Proof. intros H. apply tcs_entries_indep; unfold lenN; lia. Qed.

(* the level loop: every offset queued for the next level is at least 8 above the lowest offset of this level *)
Lemma tcs_run_indep func bs : forall k k' lb front, (1 <= k)%nat -> (1 <= k')%nat ->
  Forall (fun o => lb <= o) front -> lenN bs + 12 < lb + 8 * N.of_nat k -> lenN bs + 12 < lb + 8 * N.of_nat k' ->
  tcs_run k func bs front = tcs_run k' func bs front.
Proof.
  induction k as [|k IH]; intros k' lb front K1 K2 Hfr H1 H2; [lia|]. destruct k' as [|k']; [lia|].
  cbn [tcs_run]. destruct front as [|o front]; [reflexivity|].
  pose proof (tcs_front_inv func bs lb (o :: front) [] Hfr (Forall_nil _)) as F.
  destruct (tcs_front func bs (o :: front) []) as [[b|back]|e|]; cbn [bind]; try reflexivity.
  destruct F as [Hback Hlen]. specialize (Hlen ltac:(discriminate)).
  apply (IH k' (lb + 8)); [lia|lia|rewrite rev_append_rev, app_nil_r; apply Forall_rev; exact Hback|lia|lia].
Qed.
Theorem traverse_check_string_any_fuel func bs k : (S (length bs) < k)%nat ->
  tcs_run k func bs [0] = traverse_check_string_b bs func.
Proof.
  intros H. unfold traverse_check_string_b. apply (tcs_run_indep func bs k _ 0); [lia|lia|constructor; [lia|constructor]| |]; unfold lenN; lia.
Qed.

(* ================================================================ Iter.v again: the loop body is only asked about items at
   least 8 bytes shorter than the buffer (header + entry word), so two bodies that agree on those give the same fold *)
Lemma arr_fold_ext {St R} bs (step step' : St -> je -> list N -> res (St + R)) fin :
  (forall s j p, lenN p + 8 <= lenN bs -> step s j p = step' s j p) ->
  forall fuel idx len joff voff s, (idx < len -> 8 <= voff) ->
  arr_fold bs step fin fuel idx len joff voff s = arr_fold bs step' fin fuel idx len joff voff s.
Proof.
  intros Hstep. induction fuel as [|f IH]; intros idx len joff voff s H3; [reflexivity|].
  cbn [arr_fold]. unfold ITER_ARR_JSTEP. destruct (len <=? idx) eqn:E; [reflexivity|]. apply N.leb_gt in E.
  destruct (read_u32 bs joff) as [w|] eqn:Rw; [|reflexivity].
  destruct (slice bs voff (je_len w)) as [p|] eqn:Sp; [|reflexivity].
  destruct (slice_split _ _ _ _ Sp) as (A & B & EV & EO & EL).
  assert (Lp : lenN p + 8 <= lenN bs) by (rewrite EV, !lenN_app; specialize (H3 E); lia).
  rewrite (Hstep s (decode_je w) p Lp). apply bind_ext. intros [s'|y] _; [|reflexivity].
  apply IH. intros _. specialize (H3 E). lia.
Qed.
Lemma iterate_array_ext {St R} bs hdr (step step' : St -> je -> list N -> res (St + R)) fin s :
  (forall s j p, lenN p + 8 <= lenN bs -> step s j p = step' s j p) ->
  iterate_array bs hdr step fin s = iterate_array bs hdr step' fin s.
Proof. intros Hstep. unfold iterate_array, ITER_ARR_JOFF, ITER_ARR_VOFF. apply (arr_fold_ext bs step step' fin Hstep). lia. Qed.
Lemma ent_loop_ext {St R} bs (step step' : St -> list N -> je -> list N -> res (St + R)) fin :
  (forall s k j p, lenN p + 8 <= lenN bs -> step s k j p = step' s k j p) ->
  forall kws koff joff voff s, 8 <= voff -> ent_loop bs step fin kws koff joff voff s = ent_loop bs step' fin kws koff joff voff s.
Proof.
  intros Hstep. induction kws as [|kw r IH]; intros koff joff voff s Hv; cbn [ent_loop]; [reflexivity|].
  destruct (slice bs koff (je_len kw)) as [k|]; [|reflexivity].
  destruct (read_u32 bs joff) as [vw|]; [|reflexivity].
  destruct (slice bs voff (je_len vw)) as [p|] eqn:Sp; [|reflexivity].
  destruct (slice_split _ _ _ _ Sp) as (A & B & EV & EO & EL).
  rewrite (Hstep s k (decode_je vw) p) by (rewrite EV, !lenN_app; lia).
  apply bind_ext. intros [s'|y] _; [|reflexivity]. apply IH. lia.
Qed.
Lemma iterate_object_entries_ext {St R} bs hdr (step step' : St -> list N -> je -> list N -> res (St + R)) fin s :
  (forall s k j p, lenN p + 8 <= lenN bs -> step s k j p = step' s k j p) ->
  iterate_object_entries bs hdr step fin s = iterate_object_entries bs hdr step' fin s.
Proof.
  intros Hstep. unfold iterate_object_entries, ITER_ENT_JOFF, ITER_ENT_KOFF, ITER_ENT_VOFF, ITER_FILL_JSTEP.
  destruct (rd_words (S (length bs)) bs 0 (hdr_len hdr) 4) as [kws|] eqn:E; [|reflexivity].
  destruct kws as [|kw r]; [reflexivity|].
  apply (ent_loop_ext bs step step' fin Hstep). pose proof (rd_words_len _ _ _ _ _ _ E) as L. rewrite lenN_cons in L. lia.
Qed.

(* ================================================================ SerdeWalk.v: to_serde_json (C19) *)
Lemma scalar_to_serde_ext rec rec' j p : rec p = rec' p -> scalar_to_serde_w rec j p = scalar_to_serde_w rec' j p.
Proof. intros H. unfold scalar_to_serde_w. cbv zeta. rewrite H. reflexivity. Qed.
(* one unit per nesting level; each nested payload is at least 8 bytes shorter than its container *)
Lemma container_to_serde_indep : forall k k' bs, (length bs < k)%nat -> (length bs < k')%nat ->
  container_to_serde_w k bs = container_to_serde_w k' bs.
Proof.
  induction k as [|k IH]; intros k' bs H1 H2; [lia|]. destruct k' as [|k']; [lia|]. cbn [container_to_serde_w]. cbv zeta.
  assert (Hr : forall p, lenN p + 8 <= lenN bs -> container_to_serde_w k p = container_to_serde_w k' p).
  { intros p Lp. apply IH; unfold lenN in Lp; lia. }
  destruct (hdr_type (header_or_default bs) =? OBJECT_CONTAINER_TAG).
  { unfold members_to_serde_w. rewrite (iterate_object_entries_ext bs _ _
      (fun acc k0 j p => do x <- scalar_to_serde_w (container_to_serde_w k') j p; Ok (inl (assoc_insert k0 x acc)))); [reflexivity|].
    intros s k0 j p Lp. rewrite (scalar_to_serde_ext _ _ j p (Hr p Lp)). reflexivity. }
  destruct (hdr_type (header_or_default bs) =? ARRAY_CONTAINER_TAG).
  { unfold elements_to_serde_w. rewrite (iterate_array_ext bs _ _
      (fun acc j p => do x <- scalar_to_serde_w (container_to_serde_w k') j p; Ok (inl (acc ++ [x])))); [reflexivity|].
    intros s j p Lp. rewrite (scalar_to_serde_ext _ _ j p (Hr p Lp)). reflexivity. }
  destruct (hdr_type (header_or_default bs) =? SCALAR_CONTAINER_TAG); [|reflexivity].
  destruct (read_u32 bs 4) as [w|]; [|reflexivity].
  destruct (slice_from bs 8) as [p|] eqn:Sp; [|reflexivity].
  apply scalar_to_serde_ext. apply Hr. apply slice_from_len in Sp. lia.
Qed.
Theorem container_to_serde_any_fuel k bs : (length bs < k)%nat -> container_to_serde_w k bs = container_to_serde_w (S (length bs)) bs.
Proof. intros H. apply container_to_serde_indep; [exact H|lia]. Qed.

(* ================================================================ ContainWalk.v: contains (C12) *)
Lemma nested_any_ext rec rec' ls : (forall x, rec x = rec' x) -> nested_any rec ls = nested_any rec' ls.
Proof. intros H. induction ls as [|x r IH]; cbn [nested_any]; [reflexivity|]. rewrite H, IH. reflexivity. Qed.
Lemma contains_step_ext rec rec' l r : (forall lv rv, lenN rv + 8 <= lenN r -> rec lv rv = rec' lv rv) ->
  contains_step rec l r = contains_step rec' l r.
Proof.
  intros Hrec. unfold contains_step.
  destruct (read_u32 l 0) as [lh|]; [|reflexivity]. destruct (read_u32 r 0) as [rh|]; [|reflexivity]. cbv zeta.
  destruct ((hdr_type lh =? ARRAY_CONTAINER_TAG) && (hdr_type rh =? SCALAR_CONTAINER_TAG)); [reflexivity|].
  destruct (negb (hdr_type lh =? hdr_type rh)); [reflexivity|].
  destruct (hdr_type rh =? OBJECT_CONTAINER_TAG).
  { destruct (hdr_len lh <? hdr_len rh); [reflexivity|].
    apply iterate_object_entries_ext. intros s k j p Lp.
    apply bind_ext. intros [[lenc loff]|] _; [|reflexivity].
    destruct (negb (je_type lenc =? fst j)); [reflexivity|].
    apply bind_ext. intros lval _.
    destruct (negb (fst j =? CONTAINER_TAG)); [reflexivity|]. rewrite (Hrec lval p Lp). reflexivity. }
  destruct (hdr_type rh =? ARRAY_CONTAINER_TAG); [|reflexivity].
  apply iterate_array_ext. intros s j p Lp.
  destruct (negb (fst j =? CONTAINER_TAG)); [reflexivity|].
  apply bind_ext. intros nested _.
  rewrite (nested_any_ext (fun lv => rec lv p) (fun lv => rec' lv p) nested); [reflexivity|]. intros x. apply Hrec. exact Lp.
Qed.
(* one unit per nesting level of the right argument *)
Lemma contains_jsonb_w_indep : forall k k' l r, (length r < k)%nat -> (length r < k')%nat ->
  contains_jsonb_w k l r = contains_jsonb_w k' l r.
Proof.
  induction k as [|k IH]; intros k' l r H1 H2; [lia|]. destruct k' as [|k']; [lia|]. cbn [contains_jsonb_w].
  apply contains_step_ext. intros lv rv Lr. apply IH; unfold lenN in Lr; lia.
Qed.
Theorem contains_jsonb_w_any_fuel k l r : (length r < k)%nat -> contains_jsonb_w k l r = contains_jsonb_w (S (length r)) l r.
Proof. intros H. apply contains_jsonb_w_indep; [exact H|lia]. Qed.

(* ================================================================ EditWalk2.v: strip_nulls, delete_by_keypath (C06) *)
(* strip_nulls: one unit per nesting level, each nested item at least 8 bytes shorter *)
Lemma strip_item_indep : forall k k' item, (length item < k)%nat -> (length item < k')%nat -> strip_item k item = strip_item k' item.
Proof.
  induction k as [|k IH]; intros k' item H1 H2; [lia|]. destruct k' as [|k']; [lia|]. cbn [strip_item].
  assert (Hr : forall p, lenN p + 8 <= lenN item -> strip_item k p = strip_item k' p).
  { intros p Lp. apply IH; unfold lenN in Lp; lia. }
  destruct (read_u32 item 0) as [ih|]; [|reflexivity].
  destruct (hdr_type ih =? OBJECT_CONTAINER_TAG).
  { unfold strip_obj. erewrite iterate_object_entries_ext; [reflexivity|].
    intros s key j p Lp. cbv beta. rewrite (Hr p Lp). reflexivity. }
  destruct (hdr_type ih =? ARRAY_CONTAINER_TAG); [|reflexivity].
  unfold strip_arr. erewrite iterate_array_ext; [reflexivity|].
  intros s j p Lp. cbv beta. rewrite (Hr p Lp). reflexivity.
Qed.
Theorem strip_item_any_fuel k item : (length item < k)%nat -> strip_item k item = strip_item (S (length item)) item.
Proof. intros H. apply strip_item_indep; [exact H|lia]. Qed.
(* the two top-level loops of strip_nulls pass `length value` for items that are at least 8 bytes shorter than value *)
Theorem strip_top_any_fuel k value hdr : (length value <= k)%nat ->
  strip_obj (strip_item k) hdr value = strip_obj (strip_item (length value)) hdr value /\
  strip_arr (strip_item k) hdr value = strip_arr (strip_item (length value)) hdr value.
Proof.
  intros H. split.
  - unfold strip_obj. apply iterate_object_entries_ext. intros s key j p Lp. cbv beta.
    rewrite (strip_item_indep k (length value) p); [reflexivity|unfold lenN in Lp; lia|unfold lenN in Lp; lia].
  - unfold strip_arr. apply iterate_array_ext. intros s j p Lp. cbv beta.
    rewrite (strip_item_indep k (length value) p); [reflexivity|unfold lenN in Lp; lia|unfold lenN in Lp; lia].
Qed.

(* folds whose two bodies agree on the states that satisfy an invariant kept by the second body *)
Lemma arr_fold_ext_inv {St R} bs (step step' : St -> je -> list N -> res (St + R)) fin (I : St -> Prop) :
  (forall s j p, I s -> step s j p = step' s j p) -> (forall s j p s', I s -> step' s j p = Ok (inl s') -> I s') ->
  forall fuel idx len joff voff s, I s ->
  arr_fold bs step fin fuel idx len joff voff s = arr_fold bs step' fin fuel idx len joff voff s.
Proof.
  intros Hstep Hinv. induction fuel as [|f IH]; intros idx len joff voff s Hs; [reflexivity|].
  cbn [arr_fold]. destruct (len <=? idx); [reflexivity|]. destruct (read_u32 bs joff) as [w|]; [|reflexivity].
  destruct (slice bs voff (je_len w)) as [p|]; [|reflexivity].
  rewrite (Hstep s (decode_je w) p Hs). destruct (step' s (decode_je w) p) as [[s'|y]|e|] eqn:E; cbn [bind]; try reflexivity.
  apply IH. apply (Hinv _ _ _ _ Hs E).
Qed.
Lemma ent_loop_ext_inv {St R} bs (step step' : St -> list N -> je -> list N -> res (St + R)) fin (I : St -> Prop) :
  (forall s k j p, I s -> step s k j p = step' s k j p) -> (forall s k j p s', I s -> step' s k j p = Ok (inl s') -> I s') ->
  forall kws koff joff voff s, I s -> ent_loop bs step fin kws koff joff voff s = ent_loop bs step' fin kws koff joff voff s.
Proof.
  intros Hstep Hinv. induction kws as [|kw r IH]; intros koff joff voff s Hs; cbn [ent_loop]; [reflexivity|].
  destruct (slice bs koff (je_len kw)) as [k|]; [|reflexivity]. destruct (read_u32 bs joff) as [vw|]; [|reflexivity].
  destruct (slice bs voff (je_len vw)) as [p|]; [|reflexivity].
  rewrite (Hstep s k (decode_je vw) p Hs). destruct (step' s k (decode_je vw) p) as [[s'|y]|e|] eqn:E; cbn [bind]; try reflexivity.
  apply IH. apply (Hinv _ _ _ _ _ Hs E).
Qed.

Section DelExt.
  Variable rec rec' : list N -> list keypath -> res (option (entry * list keypath)).
  Variable ks : list keypath.
  Hypothesis Hrec : forall item kp, (length kp < length ks)%nat -> rec item kp = rec' item kp.
  Hypothesis Hpost : forall item kp e kp', (length kp < length ks)%nat -> rec' item kp = Ok (Some (e, kp')) -> (length kp' < length kp)%nat.

  Lemma del_arr_ext value hdr : del_arr rec value hdr ks = del_arr rec' value hdr ks.
  Proof.
    unfold del_arr. cbv zeta. destruct ks as [|[i|n|n] r] eqn:Eks; try reflexivity.
    destruct (DKP_B_SKIP _ _); [reflexivity|]. unfold iterate_array. cbv zeta.
    apply (arr_fold_ext_inv value _ _ _ (fun st => (length (snd st) <= length r)%nat)).
    - intros [[n es] kp] j p Hi. cbn [snd] in Hi. unfold del_arr_step.
      destruct (negb (n =? _)); [reflexivity|]. destruct (negb (kp_nil kp)); [|reflexivity].
      destruct (fst j =? CONTAINER_TAG); [|reflexivity]. rewrite Hrec by (cbn [length]; lia). reflexivity.
    - intros [[n es] kp] j p [[n' es'] kp''] Hi. cbn [snd] in *. unfold del_arr_step.
      destruct (negb (n =? _)); [intros E; injection E as <- <- <-; exact Hi|].
      destruct (negb (kp_nil kp)); [|intros E; injection E as <- <- <-; exact Hi].
      destruct (fst j =? CONTAINER_TAG); [|discriminate].
      destruct (rec' p kp) as [[[e kp']|]|e|] eqn:E; cbn [bind]; try discriminate.
      intros E2. injection E2 as <- <- <-. apply Hpost in E; cbn [length]; lia.
    - cbn [snd]. lia.
  Qed.
  Lemma del_obj_ext value hdr : del_obj rec value hdr ks = del_obj rec' value hdr ks.
  Proof.
    unfold del_obj.
    assert (G : forall name r, (length r < length ks)%nat ->
      iterate_object_entries value hdr (del_obj_step rec name) (fun st => Ok (Some st)) ([], r)
      = iterate_object_entries value hdr (del_obj_step rec' name) (fun st => Ok (Some st)) ([], r)).
    { intros name r Lk. unfold iterate_object_entries. cbv zeta.
      destruct (rd_words _ _ _ _ _) as [kws|]; [|reflexivity].
      apply (ent_loop_ext_inv value _ _ _ (fun st => (length (snd st) <= length r)%nat)).
      - intros [b kp] k j p Hi. cbn [snd] in Hi. unfold del_obj_step.
        destruct (negb (bytes_eqb k name)); [reflexivity|]. destruct (negb (kp_nil kp)); [|reflexivity].
        destruct (fst j =? CONTAINER_TAG); [|reflexivity]. rewrite Hrec by lia. reflexivity.
      - intros [b kp] k j p [b' kp''] Hi. cbn [snd] in *. unfold del_obj_step.
        destruct (negb (bytes_eqb k name)); [intros E; injection E as <- <-; exact Hi|].
        destruct (negb (kp_nil kp)); [|intros E; injection E as <- <-; exact Hi].
        destruct (fst j =? CONTAINER_TAG); [|discriminate].
        destruct (rec' p kp) as [[[e kp']|]|e|] eqn:E; cbn [bind]; try discriminate.
        intros E2. injection E2 as <- <-. apply Hpost in E; lia.
      - cbn [snd]. lia. }
    destruct ks as [|[i|n|n] r]; try reflexivity; apply G; cbn [length]; lia.
  Qed.
End DelExt.

Lemma del_item_shorter k item kp e kp' : (length kp < k)%nat -> del_item k item kp = Ok (Some (e, kp')) -> (length kp' < length kp)%nat.
Proof. intros H E. destruct (del_item_post k item kp H) as [_ P]. exact (P _ E). Qed.

(* delete_by_keypath: one unit per key-path element *)
Lemma del_item_indep : forall k k' item ks, (length ks < k)%nat -> (length ks < k')%nat -> del_item k item ks = del_item k' item ks.
Proof.
  induction k as [|k IH]; intros k' item ks H1 H2; [lia|]. destruct k' as [|k']; [lia|]. cbn [del_item].
  destruct (read_u32 item 0) as [ih|]; [|reflexivity].
  assert (A : forall it kp, (length kp < length ks)%nat -> del_item k it kp = del_item k' it kp) by (intros it kp L; apply IH; lia).
  assert (B : forall it kp e kp', (length kp < length ks)%nat -> del_item k' it kp = Ok (Some (e, kp')) -> (length kp' < length kp)%nat)
    by (intros it kp e kp' L; apply del_item_shorter; lia).
  destruct (hdr_type ih =? ARRAY_CONTAINER_TAG); [rewrite (del_arr_ext _ _ ks A B); reflexivity|].
  destruct (hdr_type ih =? OBJECT_CONTAINER_TAG); [rewrite (del_obj_ext _ _ ks A B); reflexivity|reflexivity].
Qed.
Theorem del_item_any_fuel k item ks : (length ks < k)%nat -> del_item k item ks = del_item (S (length ks)) item ks.
Proof. intros H. apply del_item_indep; [exact H|lia]. Qed.
(* the two top-level loops of delete_by_keypath pass `length ks` for key paths that are strictly shorter than ks *)
Theorem del_top_any_fuel k value hdr ks : (length ks <= k)%nat ->
  del_arr (del_item k) value hdr ks = del_arr (del_item (length ks)) value hdr ks /\
  del_obj (del_item k) value hdr ks = del_obj (del_item (length ks)) value hdr ks.
Proof.
  intros H.
  assert (A : forall it kp, (length kp < length ks)%nat -> del_item k it kp = del_item (length ks) it kp) by (intros it kp L; apply del_item_indep; lia).
  assert (B : forall it kp e kp', (length kp < length ks)%nat -> del_item (length ks) it kp = Ok (Some (e, kp')) -> (length kp' < length kp)%nat)
    by (intros it kp e kp' L; apply del_item_shorter; lia).
  split; [apply (del_arr_ext _ _ ks A B)|apply (del_obj_ext _ _ ks A B)].
Qed.

(* ================================================================ Codec.v: the binary decoder (C10, C01) *)
Section DecLists.
  Variable f f' : N -> list N -> res (value * list N).
  Variable bound : nat.
  Hypothesis Hlen : forall w bs v r, f' w bs = Ok (v, r) -> (length r <= length bs)%nat.
  Hypothesis Hff : forall w bs, (length bs <= bound)%nat -> f w bs = f' w bs.
  Lemma dec_list_ext jes : forall bs, (length bs <= bound)%nat -> dec_list f jes bs = dec_list f' jes bs.
  Proof.
    induction jes as [|j jes IH]; intros bs Hb; cbn [dec_list]; [reflexivity|]. rewrite (Hff j bs Hb).
    destruct (f' j bs) as [[v bs']|e|] eqn:E; cbn [bind]; try reflexivity. apply Hlen in E. rewrite IH by lia. reflexivity.
  Qed.
  Lemma dec_members_ext keys : forall jes bs acc, (length bs <= bound)%nat -> dec_members f keys jes bs acc = dec_members f' keys jes bs acc.
  Proof.
    induction keys as [|k keys IH]; intros jes bs acc Hb; cbn [dec_members]; [reflexivity|].
    destruct jes as [|j jes]; [reflexivity|]. destruct k; try reflexivity. rewrite (Hff j bs Hb).
    destruct (f' j bs) as [[v bs']|e|] eqn:E; cbn [bind]; try reflexivity. apply Hlen in E. apply IH. lia.
  Qed.
End DecLists.
(* a nested container starts at least 4 bytes after its parent's header and costs two units (decode_jsonb, then
   decode_scalar for its entry) *)
Lemma decode_indep : forall k k',
  (forall w bs, (length bs + 3 <= 2 * k)%nat -> (length bs + 3 <= 2 * k')%nat -> decode_scalar k w bs = decode_scalar k' w bs) /\
  (forall bs, (length bs + 1 <= 2 * k)%nat -> (length bs + 1 <= 2 * k')%nat -> decode_jsonb k bs = decode_jsonb k' bs).
Proof.
  induction k as [|k IH]; intros k'; split; intros until 2; try lia; (destruct k' as [|k']; [lia|]);
    destruct (IH k') as [IHs IHj]; cbn [decode_scalar decode_jsonb].
  - destruct (je_type w =? NULL_TAG); [reflexivity|]. destruct (je_type w =? TRUE_TAG); [reflexivity|].
    destruct (je_type w =? FALSE_TAG); [reflexivity|]. destruct (je_type w =? STRING_TAG); [reflexivity|].
    destruct (je_type w =? NUMBER_TAG); [reflexivity|]. destruct (je_type w =? CONTAINER_TAG); [|reflexivity]. apply IHj; lia.
  - destruct (rd32 bs) as [[hdr rest]|] eqn:E; [|reflexivity]. apply rd32_len in E.
    assert (IHs' : forall w bs0, (length bs0 <= length rest)%nat -> decode_scalar k w bs0 = decode_scalar k' w bs0).
    { intros w bs0 Hb. apply IHs; lia. }
    destruct (hdr_type hdr =? SCALAR_CONTAINER_TAG).
    { destruct (negb (hdr =? SCALAR_CONTAINER_TAG)); [reflexivity|].
      destruct (rd32 rest) as [[w rest']|] eqn:E2; [|reflexivity]. apply rd32_len in E2. apply IHs'. lia. }
    destruct (hdr_type hdr =? ARRAY_CONTAINER_TAG).
    { destruct (lenN rest <? 4 * hdr_len hdr); [reflexivity|].
      destruct (rd_jentries (N.to_nat (hdr_len hdr)) rest) as [[jes rest']|] eqn:EJ; [|reflexivity]. apply rd_jentries_len in EJ.
      rewrite (dec_list_ext _ _ (length rest) (proj1 (decode_len k')) IHs' jes rest' EJ). reflexivity. }
    destruct (hdr_type hdr =? OBJECT_CONTAINER_TAG); [|reflexivity].
    destruct (lenN rest <? 8 * hdr_len hdr); [reflexivity|].
    destruct (rd_jentries (2 * N.to_nat (hdr_len hdr)) rest) as [[jes rest']|] eqn:EJ; [|reflexivity]. apply rd_jentries_len in EJ.
    rewrite (dec_list_ext _ _ (length rest) (proj1 (decode_len k')) IHs' _ rest' EJ).
    destruct (dec_list (decode_scalar k') (firstn (N.to_nat (hdr_len hdr)) jes) rest') as [[keys r0]|e|] eqn:ED; cbn [bind]; try reflexivity.
    apply (dec_list_len _ (proj1 (decode_len k'))) in ED.
    rewrite (dec_members_ext _ _ (length rest) (proj1 (decode_len k')) IHs' keys _ r0 [] ltac:(lia)). reflexivity.
Qed.
Theorem decode_jsonb_any_fuel k bs : (length bs < k)%nat -> decode_jsonb k bs = decode_jsonb (S (length bs)) bs.
Proof. intros H. apply (proj2 (decode_indep k (S (length bs)))); lia. Qed.
Theorem decode_scalar_any_fuel k w bs : (S (length bs) < k)%nat -> decode_scalar k w bs = decode_scalar (S (S (length bs))) w bs.
Proof. intros H. apply (proj1 (decode_indep k (S (S (length bs))))); lia. Qed.

(* ================================================================ already proved elsewhere, restated in the same shape *)
(* ComparableWalk.v (C14): arr_cmp_loop and scalar_cmp_w give `Ok buf` -- the key so far -- when their fuel runs out.
   ExtraFuel14.comparable_w_fuel_independent: the copy comparable_w_g of the walker with its loop fuel g V and its nesting fuel
   h V as parameters is comparable_w for ALL g, h that are at least S (length V); with one number for both: *)
Theorem comparable_b_any_fuel k V buf : (length V < k)%nat -> comparable_b_fuel k V buf = comparable_b V buf.
Proof. intros H. apply comparable_b_fuel_independent. lia. Qed.
(* PathParse.v (C09): expr_or_fuel / path_fuel give PErr when their fuel runs out; PathParseFuel.fuel_stable *)
Theorem expr_or_any_fuel k rp bs : (length bs < k)%nat -> expr_or_fuel k rp bs = expr_or_fuel (S (length bs)) rp bs.
Proof. intros H. apply (proj1 (fuel_stable k (S (length bs)) bs H ltac:(lia))). Qed.
Theorem path_any_fuel k bs : (length bs < k)%nat -> path_fuel k bs = path_fuel (S (length bs)) bs.
Proof. intros H. apply (proj2 (fuel_stable k (S (length bs)) bs H ltac:(lia))). Qed.
Theorem json_path_any_fuel k bs : (length bs < k)%nat -> json_path_fuel k bs = json_path_fuel (S (length bs)) bs.
Proof. apply json_path_fuel_stable. Qed.
(* instances of many0 / sep_loop as the JSONPath parser uses them *)
Theorem many0_steps_any_fuel m k bs acc : (length bs < k)%nat -> many0 (path_fuel m) k bs acc = many0 (path_fuel m) (S (length bs)) bs acc.
Proof. apply many0_any_fuel. apply (proj2 (shr_fuel m)). Qed.
Theorem many0_inner_any_fuel k bs acc : (length bs < k)%nat ->
  many0 (ws_around inner_path) k bs acc = many0 (ws_around inner_path) (S (length bs)) bs acc.
Proof. apply many0_any_fuel. apply shr_ws_inner_path. Qed.
Theorem sep_indices_any_fuel k bs acc : (length bs < k)%nat ->
  sep_loop (ws_around parray_index) (pchar 44) k bs acc = sep_loop (ws_around parray_index) (pchar 44) (S (length bs)) bs acc.
Proof. apply sep_loop_any_fuel; [apply shr_ws_parray_index|apply shr_pchar]. Qed.
(* CmpKey.key_plain D fuel is not a termination fuel: `fuel` is the nesting bound D of the sufficient condition "nested at most
   D levels" in the hypothesis of C14's theorems (structural recursion on the value); Codec.rd_jentries, Bytes.be_bytes,
   Render.hex_fixed, EditWalk2.push_n recurse on a count that is bounded before (guard `lenN rest <? 4 * count`) or constant *)
