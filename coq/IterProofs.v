(* IterProofs.v — iterator.rs on valid containers: a `for` loop over iterate_array / iteate_object_keys /
   iterate_object_entries of a buffer that starts with payload (VArr l) / payload (VObj o) visits exactly the
   elements / keys / members in order, each with its entry (type, exact length) and its payload slice; no read fails,
   no slice panics, the fuel is never exhausted.  The loop body and its early exit are arbitrary. *)
From Coq Require Import List NArith ZArith Bool Lia.
Import ListNotations.
From JB Require Import Constants Bytes Utf8 Num Value Codec Order CodecProofs RoundtripProofs TreeOps JsonText Dispatch
  Walk WalkProofs Iter.
Open Scope N_scope.
Set Default Timeout 120.

Arguments N.lor : simpl never.
Arguments N.land : simpl never.
Arguments N.add : simpl never.
Arguments N.mul : simpl never.
Arguments N.ltb : simpl never.
Arguments N.leb : simpl never.
Arguments be32 : simpl never.
Arguments read_u32 : simpl never.
Arguments slice : simpl never.

(* rd_words (Walk.v) advances by 4 per key entry word, as fill_keys does in the source *)
Lemma fill_keys_stride : ITER_FILL_JSTEP = 4. Proof. reflexivity. Qed.

(* the list-level loop with early exit *)
Fixpoint fold_exit {X St R} (step : St -> X -> res (St + R)) (fin : St -> res R) (xs : list X) (s : St) : res R :=
  match xs with
  | [] => fin s
  | x :: r => do o <- step s x; match o with inl s' => fold_exit step fin r s' | inr y => Ok y end
  end.

(* the entry the iterators hand out for a valid element *)
Lemma decode_je_word x : wf_size x = true -> decode_je (word x) = ent x.
Proof.
  intros H. unfold decode_je, ent. rewrite (word_type x H), (word_len x H). f_equal.
  symmetry. apply (ent_len x H).
Qed.

(* ---------------------------------------------------------------- ArrayIterator *)
Lemma arr_fold_arr {St R} (step : St -> je -> list N -> res (St + R)) (fin : St -> res R) l B :
  Forall (fun v => wf_size v = true) l ->
  forall todo done, l = done ++ todo -> forall fuel s, (length todo < fuel)%nat ->
  arr_fold (payload (VArr l) ++ B) step fin fuel (lenN done) (lenN l)
           (4 + 4 * lenN done) (4 * lenN l + 4 + sum_len done) s
  = fold_exit (fun s x => step s (ent x) (payload x)) fin todo s.
Proof.
  intros Hl. induction todo as [|t todo IH]; intros done El fuel s Hf;
    (destruct fuel as [|fuel]; [cbn [length] in Hf; lia|]); cbn [arr_fold fold_exit]; unfold ITER_ARR_JSTEP.
  - rewrite app_nil_r in El. subst done. rewrite N.leb_refl. reflexivity.
  - assert (L : lenN l <=? lenN done = false) by (apply N.leb_gt; rewrite El, lenN_app, lenN_cons; lia).
    rewrite L.
    assert (Ht : wf_size t = true) by (rewrite El in Hl; apply Forall_app in Hl; destruct Hl as [_ Hl]; inversion Hl; assumption).
    assert (R0 : read_u32 (payload (VArr l) ++ B) (4 + 4 * lenN done) = Some (word t)).
    { rewrite payload_arr.
      replace ((be32 (arr_hdr l) ++ flat_map be32 (map word l) ++ flat_map payload l) ++ B)
        with (be32 (arr_hdr l) ++ flat_map be32 (map word l) ++ (flat_map payload l ++ B)) by (rewrite <- !app_assoc; reflexivity).
      apply (read_word_at _ (map word l) _ (map word done) (word t) (map word todo)).
      - apply words_of_values_ok. exact Hl.
      - rewrite El, map_app. reflexivity.
      - rewrite lenN_be32, lenN_map. reflexivity. }
    rewrite R0.
    assert (Hn : nth_opt l (length done) = Some t).
    { rewrite El. clear. induction done as [|d done IH]; cbn [nth_opt app length]; [reflexivity|exact IH]. }
    destruct (arr_elem_loc [] l B _ t Hn) as (A' & B' & Ebs & EA).
    assert (Ef : firstn (length done) l = done) by (rewrite El, firstn_app, Nat.sub_diag, firstn_all; cbn [firstn]; apply app_nil_r).
    rewrite Ef in EA. cbn [app] in Ebs. rewrite lenN_nil in EA.
    rewrite (word_len t Ht).
    assert (S0 : slice (payload (VArr l) ++ B) (4 * lenN l + 4 + sum_len done) (lenN (payload t)) = Some (payload t)).
    { rewrite Ebs. apply slice_mid'; [lia|reflexivity]. }
    rewrite S0, (decode_je_word t Ht).
    destruct (step s (ent t) (payload t)) as [[s'|y]|e|]; cbn [bind]; try reflexivity.
    specialize (IH (done ++ [t])). rewrite lenN_app, lenN_cons, lenN_nil, sum_len_app in IH.
    cbn [sum_len fold_right] in IH.
    replace (lenN done + 1) with (lenN done + (1 + 0)) by lia.
    replace (4 + 4 * lenN done + 4) with (4 + 4 * (lenN done + (1 + 0))) by lia.
    replace (4 * lenN l + 4 + sum_len done + lenN (payload t))
      with (4 * lenN l + 4 + (sum_len done + (lenN (payload t) + 0))) by lia.
    apply IH; [rewrite El, <- app_assoc; reflexivity|cbn [length] in Hf; lia].
Qed.

Theorem iterate_array_arr {St R} (step : St -> je -> list N -> res (St + R)) (fin : St -> res R) l B s :
  Forall (fun v => wf_size v = true) l -> lenN l < 536870912 ->
  iterate_array (payload (VArr l) ++ B) (arr_hdr l) step fin s
  = fold_exit (fun s x => step s (ent x) (payload x)) fin l s.
Proof.
  intros Hl Hn. unfold iterate_array, ITER_ARR_JOFF, ITER_ARR_VOFF. destruct (arr_hdr_facts l Hn) as (_ & _ & HL). rewrite HL.
  pose proof (arr_fold_arr step fin l B Hl l [] eq_refl (S (length (payload (VArr l) ++ B))) s) as E.
  rewrite lenN_nil in E. cbn [sum_len fold_right] in E.
  replace (4 + 4 * 0) with 4 in E by lia. replace (4 * lenN l + 4 + 0) with (4 * lenN l + 4) in E by lia.
  apply E. rewrite payload_arr, !app_length, be32_len, length_flat_words, map_length. lia.
Qed.

(* every item, for loops that consume the whole iterator *)
Lemma fold_exit_collect {X Y} (f : X -> Y) (xs : list X) (acc : list Y) :
  fold_exit (fun acc x => Ok (inl (acc ++ [f x]))) (fun acc => Ok acc) xs acc = Ok (acc ++ map f xs) :> res (list Y).
Proof.
  revert acc. induction xs as [|x xs IH]; intros acc; cbn [fold_exit map bind].
  - rewrite app_nil_r. reflexivity.
  - rewrite IH, <- app_assoc. reflexivity.
Qed.
Theorem arr_items_arr l B : Forall (fun v => wf_size v = true) l -> lenN l < 536870912 ->
  arr_items (payload (VArr l) ++ B) (arr_hdr l) = Ok (map (fun x => (ent x, payload x)) l).
Proof.
  intros Hl Hn. unfold arr_items. rewrite (iterate_array_arr _ _ l B [] Hl Hn).
  apply (fold_exit_collect (fun x => (ent x, payload x)) l []).
Qed.

(* ---------------------------------------------------------------- ObjectKeyIterator *)
Lemma keys_fold_obj {St R} (step : St -> list N -> res (St + R)) (fin : St -> res R) o B :
  obj_ok o ->
  forall todo done, o = done ++ todo -> forall fuel s, (length todo < fuel)%nat ->
  keys_fold (payload (VObj o) ++ B) step fin fuel (lenN done) (lenN o)
            (4 + 4 * lenN done) (8 * lenN o + 4 + sum_keys done) s
  = fold_exit (fun s kv => step s (fst kv)) fin todo s.
Proof.
  intros Ho. induction todo as [|[k x] todo IH]; intros done El fuel s Hf;
    (destruct fuel as [|fuel]; [cbn [length] in Hf; lia|]); cbn [keys_fold fold_exit fst]; unfold ITER_KEYS_JSTEP.
  - rewrite app_nil_r in El. subst done. rewrite N.leb_refl. reflexivity.
  - assert (L : lenN o <=? lenN done = false) by (apply N.leb_gt; rewrite El, lenN_app, lenN_cons; lia).
    rewrite L.
    assert (Hk : lenN k < 268435456).
    { unfold obj_ok in Ho. rewrite El in Ho. apply Forall_app in Ho. destruct Ho as [_ Ho]. inversion Ho as [|? ? [_ Hk] _]. exact Hk. }
    assert (R0 : read_u32 (payload (VObj o) ++ B) (4 + 4 * lenN done) = Some (key_word k)).
    { pose proof (obj_regroup [] o B) as G. cbn [app] in G. rewrite G.
      apply (read_word_at _ (kws o ++ vws o) _ (kws done) (key_word k) (kws todo ++ vws o)).
      - apply obj_words_ok. exact Ho.
      - rewrite El at 1. unfold kws. rewrite map_app, <- app_assoc. reflexivity.
      - rewrite lenN_be32, len_kws. reflexivity. }
    rewrite R0, (key_word_len _ Hk).
    destruct (obj_key_loc [] o B done k x todo El) as (A' & B' & Ebs & EA). cbn [app] in Ebs. rewrite lenN_nil in EA.
    assert (S0 : slice (payload (VObj o) ++ B) (8 * lenN o + 4 + sum_keys done) (lenN k) = Some k).
    { rewrite Ebs. apply slice_mid'; [lia|reflexivity]. }
    rewrite S0.
    destruct (step s k) as [[s'|y]|e|]; cbn [bind]; try reflexivity.
    specialize (IH (done ++ [(k, x)])). rewrite lenN_app, lenN_cons, lenN_nil, sum_keys_app in IH.
    cbn [sum_keys fold_right fst] in IH.
    replace (lenN done + 1) with (lenN done + (1 + 0)) by lia.
    replace (4 + 4 * lenN done + 4) with (4 + 4 * (lenN done + (1 + 0))) by lia.
    replace (8 * lenN o + 4 + sum_keys done + lenN k) with (8 * lenN o + 4 + (sum_keys done + (lenN k + 0))) by lia.
    apply IH; [rewrite El, <- app_assoc; reflexivity|cbn [length] in Hf; lia].
Qed.

Theorem iterate_object_keys_obj {St R} (step : St -> list N -> res (St + R)) (fin : St -> res R) o B s :
  obj_ok o -> lenN o < 536870912 ->
  iterate_object_keys (payload (VObj o) ++ B) (obj_hdr o) step fin s
  = fold_exit (fun s kv => step s (fst kv)) fin o s.
Proof.
  intros Ho Hn. unfold iterate_object_keys, ITER_KEYS_JOFF, ITER_KEYS_KOFF. destruct (obj_hdr_facts o Hn) as (_ & _ & HL). rewrite HL.
  pose proof (keys_fold_obj step fin o B Ho o [] eq_refl (S (length (payload (VObj o) ++ B))) s) as E.
  rewrite lenN_nil in E. cbn [sum_keys fold_right] in E.
  replace (4 + 4 * 0) with 4 in E by lia. replace (8 * lenN o + 4 + 0) with (8 * lenN o + 4) in E by lia.
  apply E. rewrite payload_obj, !app_length, be32_len, length_flat_words, app_length. unfold kws. rewrite map_length. lia.
Qed.

(* ---------------------------------------------------------------- ObjectEntryIterator *)
Lemma ent_loop_obj {St R} (step : St -> list N -> je -> list N -> res (St + R)) (fin : St -> res R) o B :
  obj_ok o ->
  forall todo done, o = done ++ todo -> forall s,
  ent_loop (payload (VObj o) ++ B) step fin (kws todo)
           (4 + lenN o * 8 + sum_keys done) (4 + 4 * lenN o + 4 * lenN done)
           (4 + lenN o * 8 + sum_keys o + sum_len (vals done)) s
  = fold_exit (fun s kv => step s (fst kv) (ent (snd kv)) (payload (snd kv))) fin todo s.
Proof.
  intros Ho. induction todo as [|[k x] todo IH]; intros done El s; cbn [kws map ent_loop fold_exit fst snd]; [reflexivity|]. unfold ITER_ENT_JSTEP.
  fold (kws todo).
  assert (Hkx : wf_size x = true /\ lenN k < 268435456).
  { unfold obj_ok in Ho. rewrite El in Ho. apply Forall_app in Ho. destruct Ho as [_ Ho]. inversion Ho as [|? ? H _]. exact H. }
  destruct Hkx as [Hx Hk].
  rewrite (key_word_len _ Hk).
  destruct (obj_key_loc [] o B done k x todo El) as (A' & B' & Ebs & EA). cbn [app] in Ebs. rewrite lenN_nil in EA.
  assert (S0 : slice (payload (VObj o) ++ B) (4 + lenN o * 8 + sum_keys done) (lenN k) = Some k).
  { rewrite Ebs. apply slice_mid'; [lia|reflexivity]. }
  rewrite S0.
  assert (R0 : read_u32 (payload (VObj o) ++ B) (4 + 4 * lenN o + 4 * lenN done) = Some (word x)).
  { pose proof (obj_regroup [] o B) as G. cbn [app] in G. rewrite G.
    apply (read_word_at _ (kws o ++ vws o) _ (kws o ++ vws done) (word x) (vws todo)).
    - apply obj_words_ok. exact Ho.
    - rewrite El at 2. unfold vws. rewrite map_app, <- app_assoc. reflexivity.
    - rewrite lenN_be32, lenN_app, len_kws, len_vws. lia. }
  rewrite R0, (word_len x Hx).
  destruct (obj_val_loc [] o B done k x todo El) as (A2 & B2 & Ebs2 & EA2). cbn [app] in Ebs2. rewrite lenN_nil in EA2.
  assert (S1 : slice (payload (VObj o) ++ B) (4 + lenN o * 8 + sum_keys o + sum_len (vals done)) (lenN (payload x)) = Some (payload x)).
  { rewrite Ebs2. apply slice_mid'; [lia|reflexivity]. }
  rewrite S1, (decode_je_word x Hx).
  destruct (step s k (ent x) (payload x)) as [[s'|y]|e|]; cbn [bind]; try reflexivity.
  specialize (IH (done ++ [(k, x)])). unfold vals in IH. rewrite lenN_app, lenN_cons, lenN_nil, sum_keys_app, map_app, sum_len_app in IH.
  cbn [sum_keys sum_len fold_right fst snd map] in IH. fold (vals done) in IH.
  replace (4 + lenN o * 8 + sum_keys done + lenN k) with (4 + lenN o * 8 + (sum_keys done + (lenN k + 0))) by lia.
  replace (4 + 4 * lenN o + 4 * lenN done + 4) with (4 + 4 * lenN o + 4 * (lenN done + (1 + 0))) by lia.
  replace (4 + lenN o * 8 + sum_keys o + sum_len (vals done) + lenN (payload x))
    with (4 + lenN o * 8 + sum_keys o + (sum_len (vals done) + (lenN (payload x) + 0))) by lia.
  apply IH. rewrite El, <- app_assoc. reflexivity.
Qed.

Theorem iterate_object_entries_obj {St R} (step : St -> list N -> je -> list N -> res (St + R)) (fin : St -> res R) o B s :
  obj_ok o -> lenN o < 536870912 ->
  iterate_object_entries (payload (VObj o) ++ B) (obj_hdr o) step fin s
  = fold_exit (fun s kv => step s (fst kv) (ent (snd kv)) (payload (snd kv))) fin o s.
Proof.
  intros Ho Hn. unfold iterate_object_entries, ITER_ENT_JOFF, ITER_ENT_KOFF, ITER_ENT_VOFF, ITER_FILL_JSTEP. destruct (obj_hdr_facts o Hn) as (_ & _ & HL). rewrite HL.
  pose proof (rd_key_words [] o B (S (length (payload (VObj o) ++ B))) Ho) as RK. cbn [app] in RK. change (lenN (@nil N) + 4) with 4 in RK.
  rewrite RK.
  2:{ rewrite payload_obj, !app_length, be32_len, length_flat_words, app_length. unfold kws. rewrite map_length. lia. }
  rewrite (sum_je_len_kws o Ho).
  pose proof (ent_loop_obj step fin o B Ho o [] eq_refl s) as E.
  rewrite <- E. unfold vals. cbn [sum_keys sum_len map fold_right]. change (lenN (@nil (list N * value))) with 0.
  f_equal; lia.
Qed.

Theorem obj_items_obj o B : obj_ok o -> lenN o < 536870912 ->
  obj_items (payload (VObj o) ++ B) (obj_hdr o) = Ok (map (fun kv => (fst kv, (ent (snd kv), payload (snd kv)))) o).
Proof.
  intros Ho Hn. unfold obj_items. rewrite (iterate_object_entries_obj _ _ o B [] Ho Hn).
  apply (fold_exit_collect (fun kv => (fst kv, (ent (snd kv), payload (snd kv)))) o []).
Qed.
Theorem key_items_obj o B : obj_ok o -> lenN o < 536870912 ->
  key_items (payload (VObj o) ++ B) (obj_hdr o) = Ok (map fst o).
Proof.
  intros Ho Hn. unfold key_items. rewrite (iterate_object_keys_obj _ _ o B [] Ho Hn).
  apply (fold_exit_collect (fun kv : list N * value => fst kv) o []).
Qed.
