(* TextProofs.v — the JSON text parser never panics (C02, C10): the first pass of parse_json_string (which skips
   escapes blindly) establishes exactly the invariant that makes every index / read_exact of the second pass
   (util.rs parse_string / parse_escaped_string) safe. *)
From Coq Require Import List NArith ZArith Bool Lia.
Import ListNotations.
From JB Require Import Constants Bytes Utf8 Num Value Decimal JsonText.
Open Scope N_scope.
Set Default Timeout 120.

(* the shape of a string body whose escapes have all the bytes the second pass will read *)
Inductive esc_ok : list N -> Prop :=
| eo_nil : esc_ok []
| eo_plain c r : c <> 92 -> esc_ok r -> esc_ok (c :: r)
| eo_short n r : n <> 117 -> esc_ok r -> esc_ok (92 :: n :: r)
| eo_u4 d r : length d = 4%nat -> hd 0 d <> 123 -> esc_ok r -> esc_ok (92 :: 117 :: d ++ r)
| eo_u6 d r : length d = 5%nat -> esc_ok r -> esc_ok (92 :: 117 :: 123 :: d ++ r).

Lemma scan_string_esc_ok fuel : forall bs acc esc data e rest,
  scan_string fuel bs acc esc = Some (data, e, rest) -> exists body, data = rev acc ++ body /\ esc_ok body.
Proof.
  induction fuel as [|fuel IH]; intros bs acc esc data e rest H; cbn [scan_string] in H; [discriminate|].
  destruct bs as [|c r]; [discriminate|].
  destruct (c =? 92) eqn:Ec.
  - apply N.eqb_eq in Ec. subst c. destruct r as [|n r']; [discriminate|].
    destruct (n =? 117) eqn:En.
    + apply N.eqb_eq in En. subst n. destruct r' as [|m r'']; [discriminate|].
      set (k := if m =? 123 then 6%nat else 4%nat) in *.
      destruct (Nat.le_gt_cases k (length (m :: r''))) as [Hk|Hk].
      * apply IH in H. destruct H as (body & Hd & Hb).
        rewrite rev_app_distr, rev_involutive in Hd. cbn [rev] in Hd. rewrite <- !app_assoc in Hd. cbn [app] in Hd.
        exists (92 :: 117 :: firstn k (m :: r'') ++ body). split; [exact Hd|].
        unfold k in *. destruct (m =? 123) eqn:Em.
        -- apply N.eqb_eq in Em. subst m. change 6%nat with (S 5). rewrite firstn_cons. cbn [app]. apply eo_u6; [|exact Hb].
           rewrite firstn_length. cbn [length] in Hk. lia.
        -- apply eo_u4; [rewrite firstn_length; lia| |exact Hb]. change 4%nat with (S 3). rewrite firstn_cons. cbn [hd]. apply N.eqb_neq. exact Em.
      * rewrite skipn_all2 in H by lia. destruct fuel; cbn [scan_string] in H; discriminate.
    + apply IH in H. destruct H as (body & Hd & Hb). cbn [rev] in Hd. rewrite <- !app_assoc in Hd. cbn [app] in Hd.
      exists (92 :: n :: body). split; [exact Hd|]. apply eo_short; [apply N.eqb_neq; exact En|exact Hb].
  - destruct (c =? 34).
    + inversion H; subst. exists []. rewrite app_nil_r. split; [reflexivity|constructor].
    + apply IH in H. destruct H as (body & Hd & Hb). cbn [rev] in Hd. rewrite <- app_assoc in Hd. cbn [app] in Hd.
      exists (c :: body). split; [exact Hd|]. apply eo_plain; [apply N.eqb_neq; exact Ec|exact Hb].
Qed.

(* reading the digits of an escape never panics on a body of that shape, and leaves a body of that shape *)
Lemma read_digits_u4 d r : length d = 4%nat -> hd 0 d <> 123 -> read_unicode_digits (d ++ r) = Ok (d, r).
Proof.
  intros Hl Hh. do 4 (destruct d as [|? d]; [discriminate|]). destruct d; [|discriminate].
  cbn [hd] in Hh. cbn [app read_unicode_digits]. apply N.eqb_neq in Hh. rewrite Hh.
  cbn [length Nat.ltb Nat.leb firstn skipn]. reflexivity.
Qed.
Lemma read_digits_u6 d r : length d = 5%nat ->
  read_unicode_digits (123 :: d ++ r) = Ok (firstn 4 d, r) \/ read_unicode_digits (123 :: d ++ r) = Err EOther.
Proof.
  intros Hl. cbn [read_unicode_digits]. change (123 =? 123) with true. cbv iota.
  replace (length (d ++ r) <? 4)%nat with false by (symmetry; apply Nat.ltb_ge; rewrite app_length; lia).
  do 5 (destruct d as [|? d]; [discriminate|]). destruct d; [|discriminate].
  cbn [app firstn skipn]. destruct (n3 =? 125); [left|right]; reflexivity.
Qed.

Lemma esc_ok_after_bs_u r2 : esc_ok (92 :: 117 :: r2) ->
  (exists d r, r2 = d ++ r /\ length d = 4%nat /\ hd 0 d <> 123 /\ esc_ok r) \/
  (exists d r, r2 = 123 :: d ++ r /\ length d = 5%nat /\ esc_ok r).
Proof.
  intros H. inversion H; subst.
  - exfalso; auto.
  - exfalso; auto.
  - left. eauto 10.
  - right. eauto 10.
Qed.

Lemma parse_escaped_ok data : esc_ok (92 :: data) ->
  match parse_escaped_string data with
  | Ok (rest, _) => esc_ok rest
  | Err _ => True
  | Panic => False
  end.
Proof.
  intros H. inversion H as [| c r Hc Hr | n r Hn Hr | d r Hl Hh Hr | d r Hl Hr ]; subst.
  - exfalso; auto.
  - (* short escape *) cbn [parse_escaped_string].
    repeat match goal with |- context [if ?c then _ else _] => destruct c eqn:? end; try exact Hr; try exact I.
    exfalso. apply Hn. apply N.eqb_eq. assumption.
  - (* \uXXXX *)
    cbn [parse_escaped_string]. change (117 =? 92) with false. change (117 =? 34) with false. change (117 =? 47) with false.
    change (117 =? 98) with false. change (117 =? 102) with false. change (117 =? 110) with false.
    change (117 =? 114) with false. change (117 =? 116) with false. change (117 =? 117) with true. cbv iota.
    rewrite (read_digits_u4 d r Hl Hh). cbn [bind].
    destruct (decode_hex_escape d 0) as [hex|]; [|exact I].
    destruct ((56320 <=? hex) && (hex <=? 57343)); [exact Hr|].
    destruct ((55296 <=? hex) && (hex <=? 56319)); [|exact Hr].
    destruct r as [|a r1]; [exact Hr|]. destruct (N.eq_dec a 92) as [->|Na].
    2:{ destruct a as [|p]; [exact Hr|]. do 7 (destruct p; try exact Hr). exfalso; apply Na; reflexivity. }
    destruct r1 as [|b r2]; [exact Hr|]. destruct (N.eq_dec b 117) as [->|Nb].
    2:{ destruct b as [|p]; [exact Hr|]. do 7 (destruct p; try exact Hr). exfalso; apply Nb; reflexivity. }
    destruct (esc_ok_after_bs_u r2 Hr) as [(d2 & r' & -> & Hl2 & Hh2 & Hr')|(d2 & r' & -> & Hl2 & Hr')].
    + rewrite (read_digits_u4 d2 r' Hl2 Hh2). cbn [bind].
      destruct (decode_hex_escape d2 0); [|exact I]. destruct ((56320 <=? n) && (n <=? 57343)); exact Hr'.
    + destruct (read_digits_u6 d2 r' Hl2) as [E|E]; rewrite E; cbn [bind]; [|exact I].
      destruct (decode_hex_escape (firstn 4 d2) 0); [|exact I]. destruct ((56320 <=? n) && (n <=? 57343)); exact Hr'.
  - (* \u{XXXX} *)
    cbn [parse_escaped_string]. change (117 =? 92) with false. change (117 =? 34) with false. change (117 =? 47) with false.
    change (117 =? 98) with false. change (117 =? 102) with false. change (117 =? 110) with false.
    change (117 =? 114) with false. change (117 =? 116) with false. change (117 =? 117) with true. cbv iota.
    destruct (read_digits_u6 d r Hl) as [E|E]; rewrite E; cbn [bind]; [|exact I].
    destruct (decode_hex_escape (firstn 4 d) 0) as [hex|]; [|exact I].
    destruct ((56320 <=? hex) && (hex <=? 57343)); [exact Hr|].
    destruct ((55296 <=? hex) && (hex <=? 56319)); [|exact Hr].
    destruct r as [|a r1]; [exact Hr|]. destruct (N.eq_dec a 92) as [->|Na].
    2:{ destruct a as [|p]; [exact Hr|]. do 7 (destruct p; try exact Hr). exfalso; apply Na; reflexivity. }
    destruct r1 as [|b r2]; [exact Hr|]. destruct (N.eq_dec b 117) as [->|Nb].
    2:{ destruct b as [|p]; [exact Hr|]. do 7 (destruct p; try exact Hr). exfalso; apply Nb; reflexivity. }
    destruct (esc_ok_after_bs_u r2 Hr) as [(d2 & r' & -> & Hl2 & Hh2 & Hr')|(d2 & r' & -> & Hl2 & Hr')].
    + rewrite (read_digits_u4 d2 r' Hl2 Hh2). cbn [bind].
      destruct (decode_hex_escape d2 0); [|exact I]. destruct ((56320 <=? n) && (n <=? 57343)); exact Hr'.
    + destruct (read_digits_u6 d2 r' Hl2) as [E2|E2]; rewrite E2; cbn [bind]; [|exact I].
      destruct (decode_hex_escape (firstn 4 d2) 0); [|exact I]. destruct ((56320 <=? n) && (n <=? 57343)); exact Hr'.
Qed.

Lemma parse_string_no_panic fuel : forall data buf, esc_ok data -> parse_string_fuel fuel data buf <> Panic.
Proof.
  induction fuel as [|fuel IH]; intros data buf H; cbn [parse_string_fuel]; [discriminate|].
  destruct data as [|b r]; [destruct (utf8_valid buf); discriminate|].
  destruct (b =? 92) eqn:Eb.
  - apply N.eqb_eq in Eb. subst b. pose proof (parse_escaped_ok r H) as P.
    destruct (parse_escaped_string r) as [[r' chunk]| |]; cbn [bind]; try discriminate; [|contradiction].
    apply IH. exact P.
  - apply IH. inversion H; subst; try (rewrite N.eqb_refl in Eb; discriminate). assumption.
Qed.

Lemma parse_json_string_no_panic bs : parse_json_string bs <> Panic.
Proof.
  unfold parse_json_string. destruct (scan_string (S (length bs)) bs [] 0) as [[[data esc] rest]|] eqn:E; [|discriminate].
  destruct esc; [destruct (utf8_valid data); discriminate|].
  apply scan_string_esc_ok in E. destruct E as (body & -> & Hb). cbn [rev app].
  unfold parse_string. destruct (parse_string_fuel (S (length body)) body []) eqn:P; cbn [bind]; try discriminate.
  exfalso. eapply parse_string_no_panic; eauto.
Qed.

Lemma parse_json_number_no_panic bs : parse_json_number bs <> Panic.
Proof.
  unfold parse_json_number.
  repeat match goal with
         | |- context [let '(_, _) := ?x in _] => destruct x
         | |- context [match ?x with _ => _ end] => destruct x; cbn [bind]; try discriminate
         end.
Qed.

Section LoopsNoPanic.
  Variable pv : list N -> res (value * list N).
  Hypothesis Hpv : forall bs, pv bs <> Panic.
  Lemma arr_loop_no_panic k : forall first acc bs, arr_loop pv k first acc bs <> Panic.
  Proof.
    induction k as [|k IH]; intros first acc bs; cbn [arr_loop]; [discriminate|].
    destruct (skip_unused bs) as [|c r]; [discriminate|].
    destruct (c =? 93); [discriminate|].
    destruct (if first then Some (c :: r) else if c =? 44 then Some r else None) as [bs'|]; [|discriminate].
    destruct (pv bs') as [[v bs'']| |] eqn:E; cbn [bind]; try discriminate; [apply IH|exfalso; eapply Hpv; eauto].
  Qed.
  Lemma obj_loop_no_panic k : forall first acc bs, obj_loop pv k first acc bs <> Panic.
  Proof.
    induction k as [|k IH]; intros first acc bs; cbn [obj_loop]; [discriminate|].
    destruct (skip_unused bs) as [|c r]; [discriminate|].
    destruct (c =? 125); [discriminate|].
    destruct (if first then Some (c :: r) else if c =? 44 then Some r else None) as [bs'|]; [|discriminate].
    destruct (pv bs') as [[key bs1]| |] eqn:E; cbn [bind]; try discriminate; [|exfalso; eapply Hpv; eauto].
    destruct key; try discriminate.
    destruct (skip_unused bs1) as [|c2 bs2]; [discriminate|].
    destruct c2 as [|p]; [discriminate|]. do 6 (destruct p; try discriminate).
    destruct (pv bs2) as [[v bs3]| |] eqn:E2; cbn [bind]; try discriminate; [apply IH|exfalso; eapply Hpv; eauto].
  Qed.
End LoopsNoPanic.

Theorem parse_json_value_no_panic fuel : forall bs, parse_json_value fuel bs <> Panic.
Proof.
  induction fuel as [|fuel IH]; intros bs; cbn [parse_json_value]; [discriminate|].
  destruct (skip_unused bs) as [|c r]; [discriminate|].
  repeat match goal with
         | |- context [if ?c then _ else _] => destruct c
         | |- context [match expect ?l ?r with _ => _ end] => destruct (expect l r)
         end; try discriminate.
  - apply parse_json_number_no_panic.
  - destruct (parse_json_string r) as [[s r']| |] eqn:E; cbn [bind]; try discriminate.
    exfalso. eapply parse_json_string_no_panic; eauto.
  - apply arr_loop_no_panic. exact IH.
  - apply obj_loop_no_panic. exact IH.
Qed.

Theorem parse_value_total bs : parse_value bs <> Panic.
Proof.
  unfold parse_value. destruct (parse_json_value (S (length bs)) bs) as [[v rest]| |] eqn:E; cbn [bind]; try discriminate.
  - destruct (skip_unused rest); discriminate.
  - exfalso. eapply parse_json_value_no_panic; eauto.
Qed.
