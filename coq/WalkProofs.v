(* WalkProofs.v — the offset-faithful walkers of Walk.v return the tree answer on every canonical encoding (C05).
   The statements are about `enc v` for an arbitrary well-formed v: every offset the walker computes lands on the
   entry word / key / payload it is meant to, for every shape and size. *)
From Coq Require Import List NArith ZArith Bool Lia.
Import ListNotations.
From JB Require Import Constants Bytes Utf8 Num Value Codec TreeOps JsonText Dispatch CodecProofs RoundtripProofs DispatchProofs Walk I32.
Open Scope N_scope.
Set Default Timeout 120.

(* ---------------------------------------------------------------- buffers as three pieces *)
Lemma lenN_nil {A} : lenN (@nil A) = 0. Proof. reflexivity. Qed.
Lemma lenN_cons {A} (x : A) l : lenN (x :: l) = 1 + lenN l.
Proof. unfold lenN. cbn [length]. lia. Qed.
Lemma to_nat_lenN {A} (l : list A) : N.to_nat (lenN l) = length l.
Proof. unfold lenN. apply Nat2N.id. Qed.

Lemma slice_mid A p B : slice (A ++ p ++ B) (lenN A) (lenN p) = Some p.
Proof.
  unfold slice. rewrite !lenN_app.
  destruct (lenN A + lenN p <=? lenN A + (lenN p + lenN B)) eqn:E; [|apply N.leb_gt in E; lia].
  rewrite !to_nat_lenN. rewrite skipn_app, skipn_all, Nat.sub_diag. cbn [skipn app].
  rewrite firstn_app, Nat.sub_diag, firstn_all. cbn [firstn]. rewrite app_nil_r. reflexivity.
Qed.
Lemma slice_mid' A p B off len : off = lenN A -> len = lenN p -> slice (A ++ p ++ B) off len = Some p.
Proof. intros -> ->. apply slice_mid. Qed.

Lemma read_u32_mid A w B : w < 4294967296 -> read_u32 (A ++ be32 w ++ B) (lenN A) = Some w.
Proof.
  intros Hw. unfold read_u32. change 4 with (lenN (be32 w)). rewrite slice_mid.
  pose proof (rd32_be32 w [] Hw) as R. rewrite app_nil_r in R. rewrite R. reflexivity.
Qed.

Definition words_ok (ws : list N) : Prop := Forall (fun w => w < 4294967296) ws.

Lemma len_flat_words (ws : list N) : lenN (flat_map be32 ws) = 4 * lenN ws.
Proof. induction ws as [|w ws IH]; [reflexivity|]. cbn [flat_map]. rewrite lenN_app, IH, lenN_be32, lenN_cons. lia. Qed.

Lemma length_flat_words (ws : list N) : length (flat_map be32 ws) = (4 * length ws)%nat.
Proof. induction ws as [|w ws IH]; [reflexivity|]. cbn [flat_map]. rewrite app_length, IH, be32_len. cbn [length]. lia. Qed.

(* the entry word number |done| of a run of entry words that starts at |A| *)
Lemma read_word_at A ws B done t rest off :
  words_ok ws -> ws = done ++ t :: rest -> off = lenN A + 4 * lenN done ->
  read_u32 (A ++ flat_map be32 ws ++ B) off = Some t.
Proof.
  intros Hok -> ->. rewrite flat_map_app. cbn [flat_map].
  replace (A ++ (flat_map be32 done ++ be32 t ++ flat_map be32 rest) ++ B)
    with ((A ++ flat_map be32 done) ++ be32 t ++ (flat_map be32 rest ++ B)) by (rewrite <- !app_assoc; reflexivity).
  replace (lenN A + 4 * lenN done) with (lenN (A ++ flat_map be32 done)) by (rewrite lenN_app, len_flat_words; reflexivity).
  apply read_u32_mid. unfold words_ok in Hok. rewrite Forall_forall in Hok. apply Hok. apply in_or_app. right. left. reflexivity.
Qed.

(* ---------------------------------------------------------------- the loops over entry words *)
Lemma jbi_loop_words A ws B pre x post : words_ok ws -> ws = pre ++ x :: post ->
  forall todo done, pre = done ++ todo ->
  forall fuel voff, (length todo < fuel)%nat ->
  jbi_loop fuel (A ++ flat_map be32 ws ++ B) (lenN done) (lenN ws) (lenN pre) (lenN A + 4 * lenN done) voff
  = Some (x, voff + sum_je_len todo).
Proof.
  intros Hok Hws. induction todo as [|t todo IH]; intros done Hpre fuel voff Hf;
    (destruct fuel as [|fuel]; [cbn [length] in Hf; lia|]); cbn [jbi_loop]; unfold JBI_ADVANCE, JBI_JSTEP.
  - rewrite app_nil_r in Hpre. subst done.
    assert (L : lenN pre <? lenN ws = true) by (apply N.ltb_lt; rewrite Hws, lenN_app, lenN_cons; lia).
    rewrite L. rewrite (read_word_at A ws B pre x post _ Hok Hws eq_refl).
    rewrite N.ltb_irrefl. cbn [sum_je_len fold_right]. rewrite N.add_0_r. reflexivity.
  - assert (Hws' : ws = done ++ t :: (todo ++ x :: post)) by (rewrite Hws, Hpre, <- app_assoc; reflexivity).
    assert (L : lenN done <? lenN ws = true) by (apply N.ltb_lt; rewrite Hws', lenN_app, lenN_cons; lia).
    rewrite L. rewrite (read_word_at A ws B done t _ _ Hok Hws' eq_refl).
    assert (L2 : lenN done <? lenN pre = true) by (apply N.ltb_lt; rewrite Hpre, lenN_app, lenN_cons; lia).
    rewrite L2.
    specialize (IH (done ++ [t])). rewrite lenN_app, lenN_cons, lenN_nil in IH.
    replace (lenN done + 1) with (lenN done + (1 + 0)) by lia.
    replace (lenN A + 4 * lenN done + 4) with (lenN A + 4 * (lenN done + (1 + 0))) by lia.
    rewrite IH; [|rewrite Hpre, <- app_assoc; reflexivity|cbn [length] in Hf; lia].
    cbn [sum_je_len fold_right]. f_equal. f_equal. fold (sum_je_len todo). lia.
Qed.

Lemma rd_words_words A ws B : words_ok ws ->
  forall todo done extra, ws = done ++ todo ++ extra ->
  forall fuel, (length todo < fuel)%nat ->
  rd_words fuel (A ++ flat_map be32 ws ++ B) (lenN done) (lenN done + lenN todo) (lenN A + 4 * lenN done) = Some todo.
Proof.
  intros Hok. induction todo as [|t todo IH]; intros done extra Hws fuel Hf;
    (destruct fuel as [|fuel]; [cbn [length] in Hf; lia|]); cbn [rd_words].
  - rewrite lenN_nil, N.add_0_r, N.ltb_irrefl. reflexivity.
  - assert (L : lenN done <? lenN done + lenN (t :: todo) = true) by (apply N.ltb_lt; rewrite lenN_cons; lia).
    rewrite L. cbn [app] in Hws. rewrite (read_word_at A ws B done t _ _ Hok Hws eq_refl).
    specialize (IH (done ++ [t]) extra). rewrite lenN_app, lenN_cons, lenN_nil in IH.
    replace (lenN done + 1) with (lenN done + (1 + 0)) by lia.
    replace (lenN done + lenN (t :: todo)) with (lenN done + (1 + 0) + lenN todo) by (rewrite lenN_cons; lia).
    replace (lenN A + 4 * lenN done + 4) with (lenN A + 4 * (lenN done + (1 + 0))) by lia.
    rewrite IH; [reflexivity|rewrite Hws, <- app_assoc; reflexivity|cbn [length] in Hf; lia].
Qed.

(* ---------------------------------------------------------------- entry words of values *)
Lemma words_of_values_ok (l : list value) : Forall (fun v => wf_size v = true) l -> words_ok (map word l).
Proof. intros H. unfold words_ok. rewrite Forall_map. eapply Forall_impl; [|exact H]. intros v Hv. apply word_bound. exact Hv. Qed.
Lemma sum_je_len_words (l : list value) : Forall (fun v => wf_size v = true) l -> sum_je_len (map word l) = sum_len l.
Proof.
  induction 1 as [|v l Hv Hl IH]; [reflexivity|]. cbn [map sum_je_len sum_len fold_right].
  fold (sum_je_len (map word l)). fold (sum_len l). rewrite IH, (word_len v Hv). reflexivity.
Qed.
Lemma wfb_size v : wfb v = true -> wf_size v = true.
Proof. unfold wfb. intros H. apply andb_true_iff in H. apply H. Qed.

(* extract_by_jentry on the entry word and the payload position of a well-formed value: its complete document *)
Lemma extract_value A x B off : wf_size x = true -> off = lenN A ->
  extract_by_jentry_w (word x) off (A ++ payload x ++ B) = Ok (enc x).
Proof.
  intros Hx ->. unfold extract_by_jentry_w, slice_p. rewrite (word_type x Hx), (word_len x Hx).
  destruct (tag_tests x) as (_ & _ & _ & _ & _ & Hc). rewrite Hc.
  assert (G : forall p w, payload x = p -> word x = w -> is_scalar x = true ->
             (if 0 <? lenN p then do q <- or_panic (slice (A ++ p ++ B) (lenN A) (lenN p)); Ok (be32 SCALAR_CONTAINER_TAG ++ be32 w ++ q)
              else Ok (be32 SCALAR_CONTAINER_TAG ++ be32 w)) = Ok (be32 SCALAR_CONTAINER_TAG ++ be32 w ++ p)).
  { intros p w _ _ _. destruct (0 <? lenN p) eqn:E; [rewrite slice_mid; reflexivity|].
    apply N.ltb_ge in E. destruct p; [rewrite app_nil_r; reflexivity|rewrite lenN_cons in E; lia]. }
  destruct x as [|b|s|n|l|o]; try (rewrite slice_mid; reflexivity);
    (rewrite (G _ _ eq_refl eq_refl eq_refl); reflexivity).
Qed.

(* the payload of element number |pre| of a list of values laid out one after the other *)
Lemma payloads_split (pre : list value) x post :
  flat_map payload (pre ++ x :: post) = flat_map payload pre ++ payload x ++ flat_map payload post.
Proof. rewrite flat_map_app. reflexivity. Qed.

(* ---------------------------------------------------------------- array layout *)
Definition arr_hdr (l : list value) : N := header_word ARRAY_CONTAINER_TAG (lenN l).
Lemma payload_arr l : payload (VArr l) = be32 (arr_hdr l) ++ flat_map be32 (map word l) ++ flat_map payload l.
Proof.
  unfold payload. cbn [enc_item snd]. rewrite !flat_map_map. reflexivity.
Qed.
Lemma arr_hdr_facts l : lenN l < 536870912 ->
  arr_hdr l < 4294967296 /\ hdr_type (arr_hdr l) = ARRAY_CONTAINER_TAG /\ hdr_len (arr_hdr l) = lenN l.
Proof.
  intros Hn. unfold arr_hdr. rewrite (header_word_small _ _ Hn).
  destruct (header_facts ARRAY_CONTAINER_TAG (or_introl eq_refl)) as (H1 & H2 & H3).
  split; [|split].
  - apply (lor_bound _ _ 32); [exact H3|lia].
  - apply (hdr_type_word _ _ Hn H1 H2).
  - apply (hdr_len_word _ _ Hn H1).
Qed.

(* get_jentry_by_index on an array that sits at offset |A| of the buffer *)
Lemma jentry_by_index_arr A l B i : Forall (fun v => wf_size v = true) l -> lenN l < 536870912 ->
  get_jentry_by_index_w (A ++ payload (VArr l) ++ B) (lenN A) (arr_hdr l) i
  = match nth_opt l (N.to_nat i) with
    | Some x => Some (word x, lenN A + 4 * lenN l + 4 + sum_len (firstn (N.to_nat i) l))
    | None => None
    end.
Proof.
  intros Hl Hn. destruct (arr_hdr_facts l Hn) as (_ & _ & HL).
  unfold get_jentry_by_index_w, JBI_REJECT, JBI_JOFF, JBI_VOFF. rewrite HL.
  destruct (lenN l <=? i) eqn:E.
  - apply N.leb_le in E. assert (Hnone : nth_opt l (N.to_nat i) = None).
    { assert (length l <= N.to_nat i)%nat by (unfold lenN in E; lia). revert H. generalize (N.to_nat i). clear.
      induction l as [|x l IH]; intros [|n] H; cbn [nth_opt length] in *; try reflexivity; try lia. apply IH. lia. }
    rewrite Hnone. reflexivity.
  - apply N.leb_gt in E. assert (Hlt : (N.to_nat i < length l)%nat) by (unfold lenN in E; lia).
    assert (Hsplit : exists pre x post, l = pre ++ x :: post /\ length pre = N.to_nat i).
    { revert Hlt. generalize (N.to_nat i). clear. induction l as [|y l IH]; intros [|n] H; cbn [length] in H; try lia.
      - exists [], y, l. split; reflexivity.
      - destruct (IH n) as (pre & x & post & E1 & E2); [lia|]. exists (y :: pre), x, post. split; [rewrite E1; reflexivity|cbn [length]; lia]. }
    destruct Hsplit as (pre & x & post & El & Ep).
    assert (Hnth : nth_opt l (N.to_nat i) = Some x).
    { rewrite El, <- Ep. clear. induction pre as [|p pre IH]; cbn [nth_opt app length]; [reflexivity|exact IH]. }
    assert (Hfirst : firstn (N.to_nat i) l = pre).
    { rewrite El, <- Ep. rewrite firstn_app, Nat.sub_diag, firstn_all. cbn [firstn]. apply app_nil_r. }
    rewrite Hnth, Hfirst.
    rewrite payload_arr.
    replace (A ++ (be32 (arr_hdr l) ++ flat_map be32 (map word l) ++ flat_map payload l) ++ B)
      with ((A ++ be32 (arr_hdr l)) ++ flat_map be32 (map word l) ++ (flat_map payload l ++ B))
      by (rewrite <- !app_assoc; reflexivity).
    assert (Ei : i = lenN pre) by (unfold lenN; rewrite Ep, N2Nat.id; reflexivity).
    pose proof (jbi_loop_words (A ++ be32 (arr_hdr l)) (map word l) (flat_map payload l ++ B) (map word pre) (word x) (map word post)
                  (words_of_values_ok l Hl)) as J.
    specialize (J ltac:(rewrite El, map_app; reflexivity) (map word pre) [] eq_refl).
    rewrite !lenN_map, lenN_app, lenN_be32, lenN_nil, N.mul_0_r, N.add_0_r in J.
    rewrite Ei. rewrite J.
    + f_equal. f_equal. rewrite sum_je_len_words; [lia|].
      rewrite El in Hl. apply Forall_app in Hl. apply Hl.
    + rewrite !app_length, length_flat_words, !map_length. rewrite El, app_length. cbn [length]. lia.
Qed.

(* the header word of a container that sits at offset |A| *)
Lemma read_hdr_arr A l B : lenN l < 536870912 -> read_u32 (A ++ payload (VArr l) ++ B) (lenN A) = Some (arr_hdr l).
Proof.
  intros Hn. rewrite payload_arr. rewrite <- !app_assoc.
  apply read_u32_mid. apply (arr_hdr_facts l Hn).
Qed.

Lemma nth_opt_split {A} (l : list A) n x : nth_opt l n = Some x ->
  exists pre post, l = pre ++ x :: post /\ length pre = n /\ firstn n l = pre.
Proof.
  revert n. induction l as [|y l IH]; intros [|n] H; cbn [nth_opt] in H; try discriminate.
  - injection H as ->. exists [], l. repeat split.
  - destruct (IH n H) as (pre & post & E1 & E2 & E3). exists (y :: pre), post.
    split; [rewrite E1 at 1; reflexivity|]. split; [cbn [length]; rewrite E2; reflexivity|]. cbn [firstn]. rewrite E3. reflexivity.
Qed.

(* element number i of an array at offset |A|, extracted: the complete document of that element *)
Lemma index_then_extract A l B i : Forall (fun v => wf_size v = true) l -> lenN l < 536870912 ->
  opt_extract (A ++ payload (VArr l) ++ B) (get_jentry_by_index_w (A ++ payload (VArr l) ++ B) (lenN A) (arr_hdr l) i)
  = Ok (option_map enc (nth_opt l (N.to_nat i))).
Proof.
  intros Hl Hn. rewrite (jentry_by_index_arr A l B i Hl Hn).
  destruct (nth_opt l (N.to_nat i)) as [x|] eqn:E; [|reflexivity].
  destruct (nth_opt_split l _ x E) as (pre & post & El & Ep & Ef). rewrite Ef.
  cbn [opt_extract option_map].
  assert (Hx : wf_size x = true) by (rewrite El in Hl; apply Forall_app in Hl; destruct Hl as [_ Hl]; inversion Hl; assumption).
  assert (P : flat_map payload l = flat_map payload pre ++ payload x ++ flat_map payload post)
    by (rewrite El at 1; apply payloads_split).
  rewrite payload_arr, P.
  replace (A ++ (be32 (arr_hdr l) ++ flat_map be32 (map word l) ++ flat_map payload pre ++ payload x ++ flat_map payload post) ++ B)
    with ((A ++ be32 (arr_hdr l) ++ flat_map be32 (map word l) ++ flat_map payload pre) ++ payload x ++ (flat_map payload post ++ B))
    by (rewrite <- !app_assoc; reflexivity).
  rewrite (extract_value _ x _ _ Hx); [reflexivity|].
  rewrite !lenN_app, lenN_be32, len_flat_words, lenN_map, len_flat_payload. lia.
Qed.

Section TopArray.
  Variable l : list value.
  Hypothesis Hwf : wfb (VArr l) = true.
  Hypothesis Htop : top_ok (VArr l).
  Let Hl : Forall (fun v => wf_size v = true) l.
  Proof. destruct (wf_arr l Hwf) as [H _]. eapply Forall_impl; [|exact H]. intros v. apply wfb_size. Qed.
  Let Hn : lenN l < 536870912. Proof. apply (wf_arr l Hwf). Qed.
  Let Ebs : enc (VArr l) = [] ++ payload (VArr l) ++ []. Proof. rewrite app_nil_r. reflexivity. Qed.

  Lemma array_length_b_arr : array_length_b (enc (VArr l)) = Ok (Some (lenN l)).
  Proof.
    unfold array_length_b. rewrite Ebs. change 0 with (lenN (@nil N)). rewrite (read_hdr_arr [] l [] Hn).
    destruct (arr_hdr_facts l Hn) as (_ & -> & ->). rewrite N.eqb_refl. reflexivity.
  Qed.
  Lemma get_by_index_b_arr i : get_by_index_b (enc (VArr l)) i = Ok (option_map enc (nth_opt l (N.to_nat i))).
  Proof.
    unfold get_by_index_b. rewrite Ebs. change 0 with (lenN (@nil N)). rewrite (read_hdr_arr [] l [] Hn).
    destruct (arr_hdr_facts l Hn) as (_ & -> & _). rewrite N.eqb_refl.
    apply (index_then_extract [] l [] i Hl Hn).
  Qed.
End TopArray.

(* the guards of TreeOps.get_by_index_t / nthZ (compare with the length before converting to a unary number) change nothing:
   an index beyond the end finds nothing anyway *)
Lemma nth_opt_past {A} (l : list A) : forall n, (length l <= n)%nat -> nth_opt l n = None.
Proof. induction l as [|x r IH]; intros [|n] H; cbn [nth_opt length] in *; try reflexivity; [lia|apply IH; lia]. Qed.
Lemma get_by_index_t_nth v i : get_by_index_t v i = match v with VArr l => nth_opt l (N.to_nat i) | _ => None end.
Proof.
  destruct v as [| | | |l|]; try reflexivity. cbn [get_by_index_t]. destruct (lenN l <=? i) eqn:E; [|reflexivity].
  apply N.leb_le in E. symmetry. apply nth_opt_past. unfold lenN in E. lia.
Qed.
Lemma nthZ_spec {A} (l : list A) i : nthZ l i = if (i <? 0)%Z then None else nth_opt l (Z.to_nat i).
Proof.
  unfold nthZ. destruct (i <? 0)%Z eqn:E1; [reflexivity|]. cbn [orb]. destruct (lenZ l <=? i)%Z eqn:E2; [|reflexivity].
  apply Z.leb_le in E2. apply Z.ltb_ge in E1. symmetry. apply nth_opt_past. unfold lenZ in E2. lia.
Qed.

(* where element n of an array at offset |A| lives *)
Lemma arr_elem_loc A l B n x : nth_opt l n = Some x ->
  exists A' B', A ++ payload (VArr l) ++ B = A' ++ payload x ++ B' /\
                lenN A' = lenN A + 4 * lenN l + 4 + sum_len (firstn n l).
Proof.
  intros E. destruct (nth_opt_split l n x E) as (pre & post & El & Ep & Ef). rewrite Ef.
  assert (P : flat_map payload l = flat_map payload pre ++ payload x ++ flat_map payload post)
    by (rewrite El at 1; apply payloads_split).
  exists (A ++ be32 (arr_hdr l) ++ flat_map be32 (map word l) ++ flat_map payload pre), (flat_map payload post ++ B).
  split.
  - rewrite payload_arr, P. rewrite <- !app_assoc. reflexivity.
  - rewrite !lenN_app, lenN_be32, len_flat_words, lenN_map, len_flat_payload. lia.
Qed.

Lemma sum_len_app a b : sum_len (a ++ b) = sum_len a + sum_len b.
Proof. induction a as [|x a IH]; cbn [app sum_len fold_right]; [reflexivity|]. fold (sum_len (a ++ b)). fold (sum_len a). rewrite IH. lia. Qed.

(* array_values: every element, in order *)
Lemma values_loop_arr A l B : Forall (fun v => wf_size v = true) l ->
  forall todo done, l = done ++ todo -> forall fuel, (length todo < fuel)%nat ->
  values_loop fuel (A ++ payload (VArr l) ++ B) (lenN done) (lenN l)
              (lenN A + 4 + 4 * lenN done) (lenN A + 4 * lenN l + 4 + sum_len done)
  = Ok (Some (map enc todo)).
Proof.
  intros Hl. induction todo as [|t todo IH]; intros done El fuel Hf;
    (destruct fuel as [|fuel]; [cbn [length] in Hf; lia|]); cbn [values_loop]; unfold AVS_JSTEP.
  - rewrite app_nil_r in El. subst done. rewrite N.ltb_irrefl. reflexivity.
  - assert (L : lenN done <? lenN l = true) by (apply N.ltb_lt; rewrite El, lenN_app, lenN_cons; lia).
    rewrite L.
    assert (Ht : wf_size t = true) by (rewrite El in Hl; apply Forall_app in Hl; destruct Hl as [_ Hl]; inversion Hl; assumption).
    (* the entry word *)
    assert (R : read_u32 (A ++ payload (VArr l) ++ B) (lenN A + 4 + 4 * lenN done) = Some (word t)).
    { rewrite payload_arr.
      replace (A ++ (be32 (arr_hdr l) ++ flat_map be32 (map word l) ++ flat_map payload l) ++ B)
        with ((A ++ be32 (arr_hdr l)) ++ flat_map be32 (map word l) ++ (flat_map payload l ++ B)) by (rewrite <- !app_assoc; reflexivity).
      apply (read_word_at _ (map word l) _ (map word done) (word t) (map word todo)).
      - apply words_of_values_ok. exact Hl.
      - rewrite El, map_app. reflexivity.
      - rewrite lenN_app, lenN_be32, lenN_map. reflexivity. }
    rewrite R.
    (* the payload *)
    assert (Hn : nth_opt l (length done) = Some t).
    { rewrite El. clear. induction done as [|d done IH]; cbn [nth_opt app length]; [reflexivity|exact IH]. }
    destruct (arr_elem_loc A l B _ t Hn) as (A' & B' & Ebs & EA).
    assert (Ef : firstn (length done) l = done) by (rewrite El, firstn_app, Nat.sub_diag, firstn_all; cbn [firstn]; apply app_nil_r).
    rewrite Ef in EA. rewrite Ebs. rewrite (extract_value A' t B' _ Ht) by (rewrite EA; reflexivity).
    cbn [bind]. rewrite <- Ebs.
    specialize (IH (done ++ [t])). rewrite lenN_app, lenN_cons, lenN_nil, sum_len_app in IH.
    cbn [sum_len fold_right] in IH. rewrite (word_len t Ht).
    replace (lenN done + 1) with (lenN done + (1 + 0)) by lia.
    replace (lenN A + 4 + 4 * lenN done + 4) with (lenN A + 4 + 4 * (lenN done + (1 + 0))) by lia.
    replace (lenN A + 4 * lenN l + 4 + sum_len done + lenN (payload t))
      with (lenN A + 4 * lenN l + 4 + (sum_len done + (lenN (payload t) + 0))) by lia.
    rewrite IH; [reflexivity|rewrite El, <- app_assoc; reflexivity|cbn [length] in Hf; lia].
Qed.

(* ---------------------------------------------------------------- object layout *)
Definition obj_hdr (o : list (list N * value)) : N := header_word OBJECT_CONTAINER_TAG (lenN o).
Definition kws (o : list (list N * value)) : list N := map (fun kv => key_word (fst kv)) o.
Definition vws (o : list (list N * value)) : list N := map (fun kv => word (snd kv)) o.
Definition vals (o : list (list N * value)) : list value := map snd o.
Definition keys_bytes (o : list (list N * value)) : list N := flat_map (fun kv => fst kv) o.

Lemma payload_obj o : payload (VObj o)
  = be32 (obj_hdr o) ++ flat_map be32 (kws o ++ vws o) ++ keys_bytes o ++ flat_map payload (vals o).
Proof.
  unfold payload, kws, vws, vals, keys_bytes. cbn [enc_item snd]. rewrite flat_map_app, !flat_map_map, <- !app_assoc. reflexivity.
Qed.
Lemma obj_hdr_facts o : lenN o < 536870912 ->
  obj_hdr o < 4294967296 /\ hdr_type (obj_hdr o) = OBJECT_CONTAINER_TAG /\ hdr_len (obj_hdr o) = lenN o.
Proof.
  intros Hn. unfold obj_hdr. rewrite (header_word_small _ _ Hn).
  destruct (header_facts OBJECT_CONTAINER_TAG (or_intror (or_introl eq_refl))) as (H1 & H2 & H3).
  split; [|split].
  - apply (lor_bound _ _ 32); [exact H3|lia].
  - apply (hdr_type_word _ _ Hn H1 H2).
  - apply (hdr_len_word _ _ Hn H1).
Qed.

Definition obj_ok (o : list (list N * value)) : Prop :=
  Forall (fun kv => wf_size (snd kv) = true /\ lenN (fst kv) < 268435456) o.
Lemma obj_ok_of_wf o : wfb (VObj o) = true -> obj_ok o /\ lenN o < 536870912.
Proof.
  intros H. destruct (wf_obj o H) as (Ha & Hn & _). split; [|exact Hn].
  eapply Forall_impl; [|exact Ha]. intros kv (H1 & _ & H3). split; [apply wfb_size; exact H1|exact H3].
Qed.
Lemma obj_words_ok o : obj_ok o -> words_ok (kws o ++ vws o).
Proof.
  intros H. unfold words_ok. apply Forall_app. split; unfold kws, vws; rewrite Forall_map; (eapply Forall_impl; [|exact H]); intros kv [H1 H2].
  - apply key_word_bound. exact H2.
  - apply word_bound. exact H1.
Qed.
Lemma sum_je_len_kws o : obj_ok o -> sum_je_len (kws o) = sum_keys o.
Proof.
  induction 1 as [|kv o [_ Hk] _ IH]; [reflexivity|]. unfold kws. cbn [map sum_je_len sum_keys fold_right].
  fold (kws o). fold (sum_je_len (kws o)). fold (sum_keys o). rewrite IH, (key_word_len _ Hk). reflexivity.
Qed.
Lemma len_keys_bytes o : lenN (keys_bytes o) = sum_keys o.
Proof. induction o as [|kv o IH]; [reflexivity|]. unfold keys_bytes. cbn [flat_map sum_keys fold_right]. fold (keys_bytes o). fold (sum_keys o). rewrite lenN_app, IH. reflexivity. Qed.
Lemma len_kws o : lenN (kws o) = lenN o. Proof. apply lenN_map. Qed.
Lemma len_vws o : lenN (vws o) = lenN o. Proof. apply lenN_map. Qed.
Lemma sum_keys_app a b : sum_keys (a ++ b) = sum_keys a + sum_keys b.
Proof. induction a as [|x a IH]; cbn [app sum_keys fold_right]; [reflexivity|]. fold (sum_keys (a ++ b)). fold (sum_keys a). rewrite IH. lia. Qed.

Lemma read_hdr_obj A o B : lenN o < 536870912 -> read_u32 (A ++ payload (VObj o) ++ B) (lenN A) = Some (obj_hdr o).
Proof.
  intros Hn. rewrite payload_obj. rewrite <- !app_assoc.
  apply read_u32_mid. apply (obj_hdr_facts o Hn).
Qed.

(* the buffer around an object at offset |A|, regrouped around its run of entry words *)
Lemma obj_regroup A o B :
  A ++ payload (VObj o) ++ B
  = (A ++ be32 (obj_hdr o)) ++ flat_map be32 (kws o ++ vws o) ++ (keys_bytes o ++ flat_map payload (vals o) ++ B).
Proof. rewrite payload_obj, <- !app_assoc. reflexivity. Qed.

(* first loop of get_jentry_by_name / object_keys: the key entry words *)
Lemma rd_key_words A o B fuel : obj_ok o -> (length o < fuel)%nat ->
  rd_words fuel (A ++ payload (VObj o) ++ B) 0 (lenN o) (lenN A + 4) = Some (kws o).
Proof.
  intros Ho Hf. rewrite obj_regroup.
  pose proof (rd_words_words (A ++ be32 (obj_hdr o)) (kws o ++ vws o) (keys_bytes o ++ flat_map payload (vals o) ++ B)
                (obj_words_ok o Ho) (kws o) [] (vws o) eq_refl fuel) as R.
  rewrite lenN_nil, N.mul_0_r, N.add_0_r, N.add_0_l, len_kws, lenN_app, lenN_be32 in R.
  apply R. unfold kws. rewrite map_length. exact Hf.
Qed.

(* where key number |done| and the payload of member number |done| live *)
Lemma obj_key_loc A o B done k x todo : o = done ++ (k, x) :: todo ->
  exists A' B', A ++ payload (VObj o) ++ B = A' ++ k ++ B' /\ lenN A' = lenN A + 8 * lenN o + 4 + sum_keys done.
Proof.
  intros Eo.
  assert (K : keys_bytes o = keys_bytes done ++ k ++ keys_bytes todo).
  { rewrite Eo at 1. unfold keys_bytes. rewrite flat_map_app. reflexivity. }
  exists (A ++ be32 (obj_hdr o) ++ flat_map be32 (kws o ++ vws o) ++ keys_bytes done), (keys_bytes todo ++ flat_map payload (vals o) ++ B).
  split.
  - rewrite payload_obj, K, <- !app_assoc. reflexivity.
  - rewrite !lenN_app, lenN_be32, len_flat_words, lenN_app, len_kws, len_vws, len_keys_bytes. lia.
Qed.
Lemma obj_val_loc A o B done k x todo : o = done ++ (k, x) :: todo ->
  exists A' B', A ++ payload (VObj o) ++ B = A' ++ payload x ++ B' /\
                lenN A' = lenN A + 8 * lenN o + 4 + sum_keys o + sum_len (vals done).
Proof.
  intros Eo.
  assert (P : flat_map payload (vals o) = flat_map payload (vals done) ++ payload x ++ flat_map payload (vals todo)).
  { rewrite Eo at 1. unfold vals. rewrite map_app. cbn [map snd]. apply payloads_split. }
  exists (A ++ be32 (obj_hdr o) ++ flat_map be32 (kws o ++ vws o) ++ keys_bytes o ++ flat_map payload (vals done)), (flat_map payload (vals todo) ++ B).
  split.
  - rewrite payload_obj, P, <- !app_assoc. reflexivity.
  - rewrite !lenN_app, lenN_be32, len_flat_words, lenN_app, len_kws, len_vws, len_keys_bytes, len_flat_payload. lia.
Qed.

(* ---------------------------------------------------------------- member by name *)
(* the loop at tree level: which member it selects and which values precede it *)
Fixpoint find_member (name : list N) (ic : bool) (todo : list (list N * value)) (before : list value)
  (result : option (list value * value)) : option (list value * value) :=
  match todo with
  | [] => result
  | (k, x) :: r =>
      if bytes_eqb name k then Some (before, x)
      else find_member name ic r (before ++ [x])
             (match result with
              | None => if ic && eq_ignore_ascii_case name k then Some (before, x) else None
              | Some _ => result
              end)
  end.

Definition loc_of (vo : N) (r : option (list value * value)) : option (N * N) :=
  option_map (fun bx => (word (snd bx), vo + sum_len (fst bx))) r.

Lemma name_loop_obj A o B name ic : obj_ok o ->
  forall todo done result, o = done ++ todo ->
  name_loop (A ++ payload (VObj o) ++ B) name ic (kws todo)
            (lenN A + 8 * lenN o + 4 + sum_keys done)
            (lenN A + 4 + 4 * lenN o + 4 * lenN done)
            (lenN A + 8 * lenN o + 4 + sum_keys o + sum_len (vals done))
            (loc_of (lenN A + 8 * lenN o + 4 + sum_keys o) result)
  = Ok (loc_of (lenN A + 8 * lenN o + 4 + sum_keys o) (find_member name ic todo (vals done) result)).
Proof.
  intros Ho. induction todo as [|[k x] todo IH]; intros done result Eo; cbn [kws map name_loop find_member]; [reflexivity|]. unfold JBN_JSTEP2.
  fold (kws todo).
  assert (Hkx : wf_size x = true /\ lenN k < 268435456).
  { unfold obj_ok in Ho. rewrite Eo in Ho. apply Forall_app in Ho. destruct Ho as [_ Ho]. inversion Ho as [|? ? Hh ?]. exact Hh. }
  destruct Hkx as [Hx Hk]. cbn [fst]. rewrite (key_word_len k Hk).
  destruct (obj_key_loc A o B done k x todo Eo) as (A1 & B1 & E1 & L1).
  assert (S1 : slice (A ++ payload (VObj o) ++ B) (lenN A + 8 * lenN o + 4 + sum_keys done) (lenN k) = Some k)
    by (rewrite E1; apply slice_mid'; [rewrite L1; reflexivity|reflexivity]).
  rewrite S1.
  (* the value entry word of this member *)
  assert (R : read_u32 (A ++ payload (VObj o) ++ B) (lenN A + 4 + 4 * lenN o + 4 * lenN done) = Some (word x)).
  { rewrite obj_regroup.
    apply (read_word_at _ (kws o ++ vws o) _ (kws o ++ vws done) (word x) (vws todo)).
    - apply obj_words_ok. exact Ho.
    - rewrite <- app_assoc. f_equal. rewrite Eo at 1. unfold vws. rewrite map_app. reflexivity.
    - rewrite !lenN_app, lenN_be32, len_kws, len_vws. lia. }
  rewrite R.
  destruct (bytes_eqb name k); [reflexivity|].
  specialize (IH (done ++ [(k, x)])).
  rewrite lenN_app, lenN_cons, lenN_nil, sum_keys_app in IH. unfold vals in IH. rewrite map_app, sum_len_app in IH.
  cbn [map snd sum_len sum_keys fold_right fst] in IH. fold (vals done) in IH. rewrite (word_len x Hx).
  replace (lenN A + 8 * lenN o + 4 + sum_keys done + lenN k)
    with (lenN A + 8 * lenN o + 4 + (sum_keys done + (lenN k + 0))) by lia.
  replace (lenN A + 4 + 4 * lenN o + 4 * lenN done + 4)
    with (lenN A + 4 + 4 * lenN o + 4 * (lenN done + (1 + 0))) by lia.
  replace (lenN A + 8 * lenN o + 4 + sum_keys o + sum_len (vals done) + lenN (payload x))
    with (lenN A + 8 * lenN o + 4 + sum_keys o + (sum_len (vals done) + (lenN (payload x) + 0))) by lia.
  match goal with |- name_loop _ _ _ _ _ _ _ ?r = _ =>
    replace r with (loc_of (lenN A + 8 * lenN o + 4 + sum_keys o)
                      (match result with
                       | None => if ic && eq_ignore_ascii_case name k then Some (vals done, x) else None
                       | Some _ => result end)) end.
  - rewrite IH by (rewrite Eo, <- app_assoc; reflexivity). reflexivity.
  - destruct result as [[b0 x0]|]; [reflexivity|]. destruct (ic && eq_ignore_ascii_case name k); reflexivity.
Qed.

(* what the loop selects is what the tree lookup selects *)
Lemma find_member_spec name ic : forall todo before result,
  option_map snd (find_member name ic todo before result)
  = match assoc_lookup name todo with
    | Some x => Some x
    | None => match result with
              | Some r => Some (snd r)
              | None => if ic then first_ci name todo else None
              end
    end.
Proof.
  induction todo as [|[k x] todo IH]; intros before result; cbn [find_member assoc_lookup first_ci].
  - destruct result; [reflexivity|]. destruct ic; reflexivity.
  - destruct (bytes_eqb name k); [reflexivity|]. rewrite IH.
    destruct (assoc_lookup name todo); [reflexivity|].
    destruct result as [r|]; [reflexivity|]. destruct ic; cbn [andb]; [|reflexivity].
    destruct (eq_ignore_ascii_case name k); reflexivity.
Qed.
(* ... and it sits where the loop says: after exactly the values it reports as preceding *)
Lemma find_member_loc name ic o : forall todo done result, o = done ++ todo ->
  (forall b x, result = Some (b, x) -> exists post, vals o = b ++ x :: post) ->
  forall b x, find_member name ic todo (vals done) result = Some (b, x) -> exists post, vals o = b ++ x :: post.
Proof.
  induction todo as [|[k y] todo IH]; intros done result Eo Hr b x; cbn [find_member].
  - apply Hr.
  - assert (Here : vals o = vals done ++ y :: vals todo) by (rewrite Eo; unfold vals; rewrite map_app; reflexivity).
    destruct (bytes_eqb name k).
    + intros H. injection H as <- <-. exists (vals todo). exact Here.
    + replace (vals done ++ [y]) with (vals (done ++ [(k, y)])) by (unfold vals; rewrite map_app; reflexivity).
      apply IH; [rewrite Eo, <- app_assoc; reflexivity|].
      intros b0 x0. destruct result as [r|]; [apply Hr|].
      destruct (ic && eq_ignore_ascii_case name k); [|discriminate].
      intros H. injection H as <- <-. exists (vals todo). exact Here.
Qed.

(* get_jentry_by_name followed by extract_by_jentry on an object at offset |A| *)
Lemma name_then_extract A o B name ic : obj_ok o -> lenN o < 536870912 ->
  (do r <- get_jentry_by_name_w (A ++ payload (VObj o) ++ B) (lenN A) (obj_hdr o) name ic;
   opt_extract (A ++ payload (VObj o) ++ B) r)
  = Ok (option_map enc (get_by_name_t (VObj o) name ic)).
Proof.
  intros Ho Hn. unfold get_jentry_by_name_w, JBN_JOFF, JBN_KOFF, JBN_VOFF, JBN_JSTEP1. destruct (obj_hdr_facts o Hn) as (_ & _ & HL). rewrite HL.
  rewrite (rd_key_words A o B _ Ho).
  2:{ rewrite !app_length, payload_obj, !app_length, length_flat_words, app_length. unfold kws. rewrite map_length. lia. }
  rewrite (sum_je_len_kws o Ho).
  pose proof (name_loop_obj A o B name ic Ho o [] None eq_refl) as L.
  cbn [vals map sum_len sum_keys fold_right loc_of option_map] in L. rewrite ?lenN_nil, ?N.mul_0_r, ?N.add_0_r in L.
  replace (lenN A + 4 + 4 * lenN o) with (lenN A + 4 + 4 * lenN o) by reflexivity.
  rewrite L. cbn [bind].
  pose proof (find_member_spec name ic o [] None) as S.
  pose proof (find_member_loc name ic o o [] None eq_refl ltac:(intros ? ? H; discriminate H)) as P.
  cbn [vals map] in P.
  unfold get_by_name_t.
  destruct (find_member name ic o [] None) as [[b x]|] eqn:F; cbn [option_map snd loc_of opt_extract fst] in *.
  - assert (Tx : match assoc_lookup name o with Some x0 => Some x0 | None => if ic then first_ci name o else None end = Some x)
      by (rewrite <- S; reflexivity).
    rewrite Tx. cbn [option_map].
    destruct (P b x eq_refl) as (post & Ev).
    (* the payload of x *)
    assert (Hx : wf_size x = true).
    { assert (In x (vals o)) by (rewrite Ev; apply in_or_app; right; left; reflexivity).
      unfold vals in H. apply in_map_iff in H. destruct H as (kv & <- & Hin). unfold obj_ok in Ho. rewrite Forall_forall in Ho. apply (Ho kv Hin). }
    assert (PP : flat_map payload (vals o) = flat_map payload b ++ payload x ++ flat_map payload post) by (rewrite Ev; apply payloads_split).
    rewrite payload_obj, PP.
    replace (A ++ (be32 (obj_hdr o) ++ flat_map be32 (kws o ++ vws o) ++ keys_bytes o ++ flat_map payload b ++ payload x ++ flat_map payload post) ++ B)
      with ((A ++ be32 (obj_hdr o) ++ flat_map be32 (kws o ++ vws o) ++ keys_bytes o ++ flat_map payload b) ++ payload x ++ (flat_map payload post ++ B))
      by (rewrite <- !app_assoc; reflexivity).
    rewrite (extract_value _ x _ _ Hx); [reflexivity|].
    rewrite !lenN_app, lenN_be32, len_flat_words, lenN_app, len_kws, len_vws, len_keys_bytes, len_flat_payload. lia.
  - assert (Tx : match assoc_lookup name o with Some x0 => Some x0 | None => if ic then first_ci name o else None end = None)
      by (rewrite <- S; reflexivity).
    rewrite Tx. reflexivity.
Qed.

(* where the member selected by name lives (exact lookup, as the key-path walker uses it) *)
Lemma name_loc A o B name : obj_ok o -> lenN o < 536870912 ->
  get_jentry_by_name_w (A ++ payload (VObj o) ++ B) (lenN A) (obj_hdr o) name false
  = Ok (match assoc_lookup name o with
        | None => None
        | Some x => Some (word x, lenN A + 8 * lenN o + 4 + sum_keys o
                                   + sum_len (match find_member name false o [] None with Some bx => fst bx | None => [] end))
        end) /\
  (forall x, assoc_lookup name o = Some x ->
     exists A' B', A ++ payload (VObj o) ++ B = A' ++ payload x ++ B' /\
       lenN A' = lenN A + 8 * lenN o + 4 + sum_keys o
                 + sum_len (match find_member name false o [] None with Some bx => fst bx | None => [] end) /\
       wf_size x = true /\ In x (vals o)).
Proof.
  intros Ho Hn. unfold get_jentry_by_name_w, JBN_JOFF, JBN_KOFF, JBN_VOFF, JBN_JSTEP1. destruct (obj_hdr_facts o Hn) as (_ & _ & HL). rewrite HL.
  rewrite (rd_key_words A o B _ Ho).
  2:{ rewrite !app_length, payload_obj, !app_length, length_flat_words, app_length. unfold kws. rewrite map_length. lia. }
  rewrite (sum_je_len_kws o Ho).
  pose proof (name_loop_obj A o B name false Ho o [] None eq_refl) as L.
  cbn [vals map sum_len sum_keys fold_right loc_of option_map] in L. rewrite ?lenN_nil, ?N.mul_0_r, ?N.add_0_r in L.
  rewrite L.
  pose proof (find_member_spec name false o [] None) as S.
  pose proof (find_member_loc name false o o [] None eq_refl ltac:(intros ? ? H; discriminate H)) as P.
  cbn [vals map] in P.
  destruct (find_member name false o [] None) as [[b x]|] eqn:F; cbn [option_map snd loc_of fst] in *.
  - assert (Tx : assoc_lookup name o = Some x) by (destruct (assoc_lookup name o); [congruence|discriminate S]).
    rewrite Tx. split; [reflexivity|]. intros x' Hx'. injection Hx' as <-.
    destruct (P b x eq_refl) as (post & Ev).
    assert (Hin : In x (vals o)) by (rewrite Ev; apply in_or_app; right; left; reflexivity).
    assert (Hx : wf_size x = true).
    { unfold vals in Hin. apply in_map_iff in Hin. destruct Hin as (kv & <- & Hin). unfold obj_ok in Ho. rewrite Forall_forall in Ho. apply (Ho kv Hin). }
    assert (PP : flat_map payload (vals o) = flat_map payload b ++ payload x ++ flat_map payload post) by (rewrite Ev; apply payloads_split).
    exists (A ++ be32 (obj_hdr o) ++ flat_map be32 (kws o ++ vws o) ++ keys_bytes o ++ flat_map payload b), (flat_map payload post ++ B).
    repeat split; [|
      rewrite !lenN_app, lenN_be32, len_flat_words, lenN_app, len_kws, len_vws, len_keys_bytes, len_flat_payload; lia|exact Hx|exact Hin].
    rewrite payload_obj, PP, <- !app_assoc. reflexivity.
  - assert (Tx : assoc_lookup name o = None) by (destruct (assoc_lookup name o); [discriminate S|reflexivity]).
    rewrite Tx. split; [reflexivity|]. intros x' Hx'. discriminate Hx'.
Qed.

(* ---------------------------------------------------------------- key paths *)
Definition cur_ok (x : value) (A : list N) (cur : option N) : Prop :=
  cur = Some (word x) \/ (cur = None /\ is_container x = true /\ A = []).

Lemma scalar_keypath_none x k r : is_container x = false -> get_by_keypath_t x (k :: r) = None.
Proof. destruct x, k; cbn; intros H; try discriminate H; reflexivity. Qed.

Lemma nthZ_nat {A} (l : list A) z : (0 <= z)%Z -> nthZ l z = nth_opt l (N.to_nat (Z.to_N z)).
Proof. intros H. rewrite nthZ_spec. destruct (z <? 0)%Z eqn:E; [apply Z.ltb_lt in E; lia|]. rewrite Z_N_nat. reflexivity. Qed.

Lemma wfb_arr_elem l x : wfb (VArr l) = true -> In x l -> wfb x = true.
Proof. intros H Hin. destruct (wf_arr l H) as [Ha _]. rewrite Forall_forall in Ha. apply Ha. exact Hin. Qed.
Lemma wfb_obj_elem o x : wfb (VObj o) = true -> In x (vals o) -> wfb x = true.
Proof.
  intros H Hin. destruct (wf_obj o H) as [Ha _]. rewrite Forall_forall in Ha.
  unfold vals in Hin. apply in_map_iff in Hin. destruct Hin as (kv & <- & Hin). apply (Ha kv Hin).
Qed.
Lemma nth_opt_In {A} (l : list A) n x : nth_opt l n = Some x -> In x l.
Proof. revert n. induction l as [|y l IH]; intros [|n] H; cbn [nth_opt] in H; try discriminate; [injection H as ->; left; reflexivity|right; eapply IH; exact H]. Qed.

Lemma keypath_loop_at : forall ks x A B cur, wfb x = true -> cur_ok x A cur ->
  match get_by_keypath_t x ks with
  | None => keypath_loop (A ++ payload x ++ B) ks (lenN A) cur = Ok None
  | Some y =>
      exists A' B', A ++ payload x ++ B = A' ++ payload y ++ B' /\ wfb y = true /\
        keypath_loop (A ++ payload x ++ B) ks (lenN A) cur
        = Ok (Some (lenN A', match ks with [] => cur | _ => Some (word y) end)) /\
        (ks <> [] -> 0 < lenN A')
  end.
Proof.
  induction ks as [|k r IH]; intros x A B cur Hwf Hcur.
  - cbn [get_by_keypath_t keypath_loop]. exists A, B. repeat split; [exact Hwf|]. intros H. contradiction H. reflexivity.
  - cbn [keypath_loop].
    assert (Hsz : wf_size x = true) by (apply wfb_size; exact Hwf).
    destruct (tag_tests x) as (_ & _ & _ & _ & _ & Hc).
    destruct (is_container x) eqn:Ecx.
    + (* a container: the guard passes, whichever way we got here *)
      assert (G : match cur with Some e => negb (je_type e =? CONTAINER_TAG) | None => false end = false).
      { destruct Hcur as [->|(-> & _)]; [|reflexivity]. rewrite (word_type x Hsz), Hc. destruct x; try discriminate Ecx; reflexivity. }
      rewrite G. clear G.
      destruct x as [|b0|s0|n0|l|o]; try discriminate Ecx.
      * (* array *)
        destruct (wf_arr l Hwf) as [Hall Hn].
        assert (Hl : Forall (fun v => wf_size v = true) l) by (eapply Forall_impl; [|exact Hall]; intros v; apply wfb_size).
        rewrite (read_hdr_arr A l B Hn). destruct (arr_hdr_facts l Hn) as (_ & HT & HL). rewrite HT, HL.
        destruct k as [i|n|n]; cbn [get_by_keypath_t];
          [|change (ARRAY_CONTAINER_TAG =? OBJECT_CONTAINER_TAG) with false; reflexivity
           |change (ARRAY_CONTAINER_TAG =? OBJECT_CONTAINER_TAG) with false; reflexivity].
        rewrite N.eqb_refl.
        replace (Z.of_N (lenN l)) with (lenZ l) by (unfold lenZ, lenN; rewrite nat_N_Z; reflexivity).
        (* the generated guard / index expressions of both branches, in their reference form (I32.v) *)
        rewrite GBK_T_REJECT_spec, GBK_B_REJECT_spec, GBK_T_INDEX_spec, GBK_B_INDEX_spec.
        destruct ((lenZ l <? i) || (lenZ l + i <? 0))%Z eqn:Eg; [reflexivity|].
        apply orb_false_iff in Eg. destruct Eg as [Eg1 Eg2]. apply Z.ltb_ge in Eg1. apply Z.ltb_ge in Eg2.
        set (z := (if (0 <=? i)%Z then i else lenZ l + i)%Z).
        assert (Hz : (0 <= z)%Z) by (unfold z; destruct (0 <=? i)%Z eqn:E0; [apply Z.leb_le in E0; exact E0|exact Eg2]).
        rewrite (nthZ_nat l z Hz). rewrite (jentry_by_index_arr A l B (Z.to_N z) Hl Hn).
        destruct (nth_opt l (N.to_nat (Z.to_N z))) as [x'|] eqn:En; [|reflexivity].
        destruct (arr_elem_loc A l B _ x' En) as (A1 & B1 & E1 & L1).
        assert (Hx' : wfb x' = true) by (apply (wfb_arr_elem l x' Hwf); eapply nth_opt_In; exact En).
        rewrite <- L1. rewrite E1.
        specialize (IH x' A1 B1 (Some (word x')) Hx' (or_introl eq_refl)).
        destruct (get_by_keypath_t x' r) as [y|] eqn:Ey; [|exact IH].
        destruct IH as (A' & B' & E' & Hy & Hk & Hpos). exists A', B'. split; [exact E'|]. split; [exact Hy|]. split.
        -- rewrite Hk. destruct r; [cbn [get_by_keypath_t] in Ey; injection Ey as ->; reflexivity|reflexivity].
        -- intros _. destruct r as [|k2 r2]; [|apply Hpos; discriminate].
           cbn [get_by_keypath_t keypath_loop] in Hk. injection Hk as Hk. rewrite <- Hk, L1. lia.
      * (* object *)
        destruct (obj_ok_of_wf o Hwf) as [Ho Hn].
        rewrite (read_hdr_obj A o B Hn). destruct (obj_hdr_facts o Hn) as (_ & HT & HL). rewrite HT.
        assert (Obj : forall n,
          match match assoc_lookup n o with Some x0 => get_by_keypath_t x0 r | None => None end with
          | None => (do j <- get_jentry_by_name_w (A ++ payload (VObj o) ++ B) (lenN A) (obj_hdr o) n false;
                     match j with Some (e, voff) => keypath_loop (A ++ payload (VObj o) ++ B) r voff (Some e) | None => Ok None end) = Ok None
          | Some y => exists A' B', A ++ payload (VObj o) ++ B = A' ++ payload y ++ B' /\ wfb y = true /\
               (do j <- get_jentry_by_name_w (A ++ payload (VObj o) ++ B) (lenN A) (obj_hdr o) n false;
                match j with Some (e, voff) => keypath_loop (A ++ payload (VObj o) ++ B) r voff (Some e) | None => Ok None end)
               = Ok (Some (lenN A', Some (word y))) /\ (k :: r <> [] -> 0 < lenN A')
          end).
        { intros n. destruct (name_loc A o B n Ho Hn) as [EJ Hloc]. rewrite EJ. cbn [bind].
          destruct (assoc_lookup n o) as [x'|] eqn:En; [|reflexivity].
          destruct (Hloc x' eq_refl) as (A1 & B1 & E1 & L1 & Hx1 & Hin).
          assert (Hx' : wfb x' = true) by (apply (wfb_obj_elem o x' Hwf Hin)).
          rewrite <- L1. rewrite E1.
          specialize (IH x' A1 B1 (Some (word x')) Hx' (or_introl eq_refl)).
          destruct (get_by_keypath_t x' r) as [y|] eqn:Ey; [|exact IH].
          destruct IH as (A' & B' & E' & Hy & Hk & Hpos). exists A', B'. split; [exact E'|]. split; [exact Hy|]. split.
          - rewrite Hk. destruct r; [cbn [get_by_keypath_t] in Ey; injection Ey as ->; reflexivity|reflexivity].
          - intros _. destruct r as [|k2 r2]; [|apply Hpos; discriminate].
            cbn [get_by_keypath_t keypath_loop] in Hk. injection Hk as Hk. rewrite <- Hk, L1. lia. }
        destruct k as [i|n|n]; cbn [get_by_keypath_t];
          [change (OBJECT_CONTAINER_TAG =? ARRAY_CONTAINER_TAG) with false; reflexivity
          |rewrite N.eqb_refl; apply Obj|rewrite N.eqb_refl; apply Obj].
    + (* a scalar: only reachable through an entry word, and the guard stops the walk *)
      rewrite (scalar_keypath_none x k r Ecx).
      destruct Hcur as [->|(_ & Hc' & _)]; [|rewrite Ecx in Hc'; discriminate Hc'].
      rewrite (word_type x Hsz), Hc. destruct x; try discriminate Ecx; reflexivity.
Qed.

(* ---------------------------------------------------------------- object_keys *)
Lemma copy_keys_obj A o B : obj_ok o -> forall todo done acc, o = done ++ todo ->
  copy_keys (A ++ payload (VObj o) ++ B) (kws todo) (lenN A + 8 * lenN o + 4 + sum_keys done) acc
  = Ok (acc ++ keys_bytes todo).
Proof.
  intros Ho. induction todo as [|[k x] todo IH]; intros done acc Eo; cbn [kws map copy_keys].
  - unfold keys_bytes. cbn [flat_map]. rewrite app_nil_r. reflexivity.
  - fold (kws todo).
    assert (Hk : lenN k < 268435456).
    { unfold obj_ok in Ho. rewrite Eo in Ho. apply Forall_app in Ho. destruct Ho as [_ Ho]. inversion Ho as [|? ? Hh ?]. apply Hh. }
    cbn [fst]. rewrite (key_word_len k Hk).
    specialize (IH (done ++ [(k, x)])). rewrite sum_keys_app in IH. cbn [sum_keys fold_right fst] in IH.
    replace (lenN A + 8 * lenN o + 4 + sum_keys done + lenN k) with (lenN A + 8 * lenN o + 4 + (sum_keys done + (lenN k + 0))) by lia.
    assert (KB : keys_bytes ((k, x) :: todo) = k ++ keys_bytes todo) by reflexivity.
    destruct (lenN A + 8 * lenN o + 4 + sum_keys done <? lenN A + 8 * lenN o + 4 + (sum_keys done + (lenN k + 0))) eqn:E.
    + destruct (obj_key_loc A o B done k x todo Eo) as (A1 & B1 & E1 & L1).
      assert (S1 : slice (A ++ payload (VObj o) ++ B) (lenN A + 8 * lenN o + 4 + sum_keys done) (lenN k) = Some k)
        by (rewrite E1; apply slice_mid'; [rewrite L1; reflexivity|reflexivity]).
      rewrite S1. rewrite IH by (rewrite Eo, <- app_assoc; reflexivity). rewrite KB, app_assoc. reflexivity.
    + apply N.ltb_ge in E. assert (k = []) by (destruct k; [reflexivity|rewrite lenN_cons in E; lia]). subst k.
      rewrite IH by (rewrite Eo, <- app_assoc; reflexivity). reflexivity.
Qed.

Lemma object_keys_b_obj o : wfb (VObj o) = true ->
  object_keys_b (enc (VObj o)) = Ok (Some (enc (VArr (map (fun kv => VStr (fst kv)) o)))).
Proof.
  intros Hwf. destruct (obj_ok_of_wf o Hwf) as [Ho Hn].
  assert (Ebs : enc (VObj o) = [] ++ payload (VObj o) ++ []) by (rewrite app_nil_r; reflexivity).
  unfold object_keys_b, OKS_JOFF, OKS_PREV_KOFF. rewrite Ebs. change 0 with (lenN (@nil N)) at 1. rewrite (read_hdr_obj [] o [] Hn).
  destruct (obj_hdr_facts o Hn) as (_ & -> & ->). rewrite N.eqb_refl.
  change 4 with (lenN (@nil N) + 4) at 1. rewrite (rd_key_words [] o [] _ Ho).
  2:{ rewrite !app_length, payload_obj, !app_length, length_flat_words, app_length. unfold kws. rewrite map_length. lia. }
  pose proof (copy_keys_obj [] o [] Ho o [] (be32 (N.lor ARRAY_CONTAINER_TAG (u32 (lenN o))) ++ flat_map be32 (kws o)) eq_refl) as C.
  cbn [sum_keys fold_right] in C. rewrite lenN_nil, N.add_0_l, N.add_0_r in C. rewrite C. cbn [bind]. f_equal. f_equal.
  change (enc (VArr (map (fun kv => VStr (fst kv)) o))) with (payload (VArr (map (fun kv => VStr (fst kv)) o))).
  rewrite payload_arr. unfold arr_hdr, header_word. rewrite lenN_map, <- !app_assoc. f_equal. f_equal.
  - unfold kws. rewrite map_map. reflexivity.
  - unfold keys_bytes. rewrite flat_map_map. reflexivity.
Qed.

(* ---------------------------------------------------------------- object_each *)
Lemma each_keys_obj A o B : obj_ok o -> forall todo done, o = done ++ todo ->
  each_keys (A ++ payload (VObj o) ++ B) (kws todo) (lenN A + 8 * lenN o + 4 + sum_keys done)
  = Ok (map fst todo, lenN A + 8 * lenN o + 4 + sum_keys done + sum_keys todo).
Proof.
  intros Ho. induction todo as [|[k x] todo IH]; intros done Eo; cbn [kws map each_keys].
  - cbn [sum_keys fold_right]. rewrite N.add_0_r. reflexivity.
  - fold (kws todo).
    assert (Hk : lenN k < 268435456).
    { unfold obj_ok in Ho. rewrite Eo in Ho. apply Forall_app in Ho. destruct Ho as [_ Ho]. inversion Ho as [|? ? Hh ?]. apply Hh. }
    cbn [fst]. rewrite (key_word_len k Hk).
    destruct (obj_key_loc A o B done k x todo Eo) as (A1 & B1 & E1 & L1).
    assert (S1 : slice (A ++ payload (VObj o) ++ B) (lenN A + 8 * lenN o + 4 + sum_keys done) (lenN k) = Some k)
      by (rewrite E1; apply slice_mid'; [rewrite L1; reflexivity|reflexivity]).
    unfold slice_p. rewrite S1. cbn [or_panic bind].
    specialize (IH (done ++ [(k, x)])). rewrite sum_keys_app in IH. cbn [sum_keys fold_right fst] in IH.
    replace (lenN A + 8 * lenN o + 4 + sum_keys done + lenN k) with (lenN A + 8 * lenN o + 4 + (sum_keys done + (lenN k + 0))) by lia.
    rewrite IH by (rewrite Eo, <- app_assoc; reflexivity). cbn [bind]. f_equal. f_equal.
    cbn [sum_keys fold_right fst]. fold (sum_keys todo). lia.
Qed.

Lemma each_vals_obj A o B : obj_ok o -> forall todo done, o = done ++ todo ->
  each_vals (A ++ payload (VObj o) ++ B) (map fst todo) (vws todo)
            (lenN A + 8 * lenN o + 4 + sum_keys o + sum_len (vals done))
  = Ok (map (fun kv => (fst kv, enc (snd kv))) todo).
Proof.
  intros Ho. induction todo as [|[k x] todo IH]; intros done Eo; cbn [vws map each_vals]; [reflexivity|].
  fold (vws todo).
  assert (Hx : wf_size x = true).
  { unfold obj_ok in Ho. rewrite Eo in Ho. apply Forall_app in Ho. destruct Ho as [_ Ho]. inversion Ho as [|? ? Hh ?]. apply Hh. }
  cbn [fst snd].
  destruct (obj_val_loc A o B done k x todo Eo) as (A1 & B1 & E1 & L1).
  rewrite E1. rewrite (extract_value A1 x B1 _ Hx) by (rewrite L1; reflexivity). cbn [bind]. rewrite <- E1.
  specialize (IH (done ++ [(k, x)])). unfold vals in IH. rewrite map_app, sum_len_app in IH. cbn [map snd sum_len fold_right] in IH. fold (vals done) in IH.
  rewrite (word_len x Hx).
  replace (lenN A + 8 * lenN o + 4 + sum_keys o + sum_len (vals done) + lenN (payload x))
    with (lenN A + 8 * lenN o + 4 + sum_keys o + (sum_len (vals done) + (lenN (payload x) + 0))) by lia.
  rewrite IH by (rewrite Eo, <- app_assoc; reflexivity). reflexivity.
Qed.

Lemma object_each_b_obj o : wfb (VObj o) = true ->
  object_each_b (enc (VObj o)) = Ok (Some (map (fun kv => (fst kv, enc (snd kv))) o)).
Proof.
  intros Hwf. destruct (obj_ok_of_wf o Hwf) as [Ho Hn].
  assert (Ebs : enc (VObj o) = [] ++ payload (VObj o) ++ []) by (rewrite app_nil_r; reflexivity).
  unfold object_each_b, OEA_WORDS, OEA_OFF0, OEA_STEP. rewrite Ebs. change 0 with (lenN (@nil N)) at 1. rewrite (read_hdr_obj [] o [] Hn).
  destruct (obj_hdr_facts o Hn) as (_ & -> & ->). rewrite N.eqb_refl.
  replace (lenN o * 2) with (2 * lenN o) by lia.
  assert (R : rd_words (S (length ([] ++ payload (VObj o) ++ []))) ([] ++ payload (VObj o) ++ []) 0 (2 * lenN o) 4 = Some (kws o ++ vws o)).
  { rewrite obj_regroup.
    pose proof (rd_words_words ([] ++ be32 (obj_hdr o)) (kws o ++ vws o) (keys_bytes o ++ flat_map payload (vals o) ++ [])
                  (obj_words_ok o Ho) (kws o ++ vws o) [] [] ltac:(rewrite app_nil_r; reflexivity)) as R.
    rewrite ?lenN_app, ?len_kws, ?len_vws, ?lenN_be32, ?lenN_nil, ?N.mul_0_r, ?N.add_0_r, ?N.add_0_l in R.
    replace (2 * lenN o) with (lenN o + lenN o) by lia. apply R.
    rewrite !app_length, length_flat_words, !app_length. unfold kws, vws. rewrite !map_length. lia. }
  rewrite R.
  assert (F1 : firstn (N.to_nat (lenN o)) (kws o ++ vws o) = kws o)
    by (rewrite to_nat_lenN; unfold kws, vws; apply firstn_map_app).
  assert (F2 : skipn (N.to_nat (lenN o)) (kws o ++ vws o) = vws o)
    by (rewrite to_nat_lenN; unfold kws, vws; apply skipn_map_app).
  rewrite F1, F2.
  pose proof (each_keys_obj [] o [] Ho o [] eq_refl) as K. change (sum_keys []) with 0 in K.
  rewrite lenN_nil, N.add_0_l, !N.add_0_r in K.
  replace (4 + 4 * (2 * lenN o)) with (8 * lenN o + 4) by lia. rewrite K. cbn [bind].
  pose proof (each_vals_obj [] o [] Ho o [] eq_refl) as V. cbn [vals map sum_len fold_right] in V.
  rewrite lenN_nil, N.add_0_l, N.add_0_r in V. fold (sum_keys o). rewrite V. reflexivity.
Qed.

(* ---------------------------------------------------------------- the theorems: every walker on enc v *)

  (* the header word of a scalar document is the scalar tag: neither array nor object *)
  Lemma scalar_hdr v : is_container v = false -> read_u32 (enc v) 0 = Some SCALAR_CONTAINER_TAG.
  Proof.
    intros Hs. assert (E : enc v = [] ++ be32 SCALAR_CONTAINER_TAG ++ (be32 (word v) ++ payload v)) by (destruct v; try discriminate Hs; reflexivity).
    rewrite E. change 0 with (lenN (@nil N)). apply read_u32_mid. vm_compute. reflexivity.
  Qed.

  Theorem array_length_w_enc v : wfb v = true -> top_ok v -> array_length_w (enc v) = Ok (array_length_t v).
  Proof.
    intros Hwf Htop. pose proof (is_jsonb_enc v Hwf Htop) as Hj.
    unfold array_length_w. rewrite Hj. clear Hj Htop. destruct v as [|b|s|n|l|o]; try (unfold array_length_b; rewrite scalar_hdr by reflexivity; reflexivity).
    - apply (array_length_b_arr l Hwf).
    - destruct (obj_ok_of_wf o Hwf) as [Ho Hn]. unfold array_length_b.
      assert (Ebs : enc (VObj o) = [] ++ payload (VObj o) ++ []) by (rewrite app_nil_r; reflexivity).
      rewrite Ebs. change 0 with (lenN (@nil N)). rewrite (read_hdr_obj [] o [] Hn).
      destruct (obj_hdr_facts o Hn) as (_ & -> & _). reflexivity.
  Qed.

  Theorem get_by_index_w_enc v i : wfb v = true -> top_ok v -> get_by_index_w (enc v) i = Ok (option_map enc (get_by_index_t v i)).
  Proof.
    intros Hwf Htop. pose proof (is_jsonb_enc v Hwf Htop) as Hj.
    unfold get_by_index_w. rewrite Hj. clear Hj Htop. destruct v as [|b|s|n|l|o]; try (unfold get_by_index_b; rewrite scalar_hdr by reflexivity; reflexivity).
    - rewrite get_by_index_t_nth. apply (get_by_index_b_arr l Hwf).
    - destruct (obj_ok_of_wf o Hwf) as [Ho Hn]. unfold get_by_index_b.
      assert (Ebs : enc (VObj o) = [] ++ payload (VObj o) ++ []) by (rewrite app_nil_r; reflexivity).
      rewrite Ebs. change 0 with (lenN (@nil N)). rewrite (read_hdr_obj [] o [] Hn).
      destruct (obj_hdr_facts o Hn) as (_ & -> & _). reflexivity.
  Qed.

  Theorem get_by_name_w_enc v name ic : wfb v = true -> top_ok v -> get_by_name_w (enc v) name ic = Ok (option_map enc (get_by_name_t v name ic)).
  Proof.
    intros Hwf Htop. pose proof (is_jsonb_enc v Hwf Htop) as Hj.
    unfold get_by_name_w. rewrite Hj. clear Hj Htop. destruct v as [|b|s|n|l|o]; try (unfold get_by_name_b; rewrite scalar_hdr by reflexivity; reflexivity).
    - destruct (wf_arr l Hwf) as [_ Hn]. unfold get_by_name_b.
      assert (Ebs : enc (VArr l) = [] ++ payload (VArr l) ++ []) by (rewrite app_nil_r; reflexivity).
      rewrite Ebs. change 0 with (lenN (@nil N)). rewrite (read_hdr_arr [] l [] Hn).
      destruct (arr_hdr_facts l Hn) as (_ & -> & _). reflexivity.
    - destruct (obj_ok_of_wf o Hwf) as [Ho Hn]. unfold get_by_name_b.
      assert (Ebs : enc (VObj o) = [] ++ payload (VObj o) ++ []) by (rewrite app_nil_r; reflexivity).
      rewrite Ebs. change 0 with (lenN (@nil N)). rewrite (read_hdr_obj [] o [] Hn).
      destruct (obj_hdr_facts o Hn) as (_ & -> & _). rewrite N.eqb_refl.
      apply (name_then_extract [] o [] name ic Ho Hn).
  Qed.

  Theorem object_keys_w_enc v : wfb v = true -> top_ok v -> object_keys_w (enc v) = Ok (option_map enc (object_keys_t v)).
  Proof.
    intros Hwf Htop. pose proof (is_jsonb_enc v Hwf Htop) as Hj.
    unfold object_keys_w. rewrite Hj. clear Hj Htop. destruct v as [|b|s|n|l|o]; try (unfold object_keys_b, OKS_JOFF, OKS_PREV_KOFF; rewrite scalar_hdr by reflexivity; reflexivity).
    - destruct (wf_arr l Hwf) as [_ Hn]. unfold object_keys_b, OKS_JOFF, OKS_PREV_KOFF.
      assert (Ebs : enc (VArr l) = [] ++ payload (VArr l) ++ []) by (rewrite app_nil_r; reflexivity).
      rewrite Ebs. change 0 with (lenN (@nil N)). rewrite (read_hdr_arr [] l [] Hn).
      destruct (arr_hdr_facts l Hn) as (_ & -> & _). reflexivity.
    - apply (object_keys_b_obj o Hwf).
  Qed.

  Theorem object_each_w_enc v : wfb v = true -> top_ok v ->
    object_each_w (enc v) = Ok (option_map (map (fun kv => (fst kv, enc (snd kv)))) (object_each_t v)).
  Proof.
    intros Hwf Htop. pose proof (is_jsonb_enc v Hwf Htop) as Hj.
    unfold object_each_w. rewrite Hj. clear Hj Htop. destruct v as [|b|s|n|l|o]; try (unfold object_each_b, OEA_WORDS, OEA_OFF0, OEA_STEP; rewrite scalar_hdr by reflexivity; reflexivity).
    - destruct (wf_arr l Hwf) as [_ Hn]. unfold object_each_b, OEA_WORDS, OEA_OFF0, OEA_STEP.
      assert (Ebs : enc (VArr l) = [] ++ payload (VArr l) ++ []) by (rewrite app_nil_r; reflexivity).
      rewrite Ebs. change 0 with (lenN (@nil N)). rewrite (read_hdr_arr [] l [] Hn).
      destruct (arr_hdr_facts l Hn) as (_ & -> & _). reflexivity.
    - apply (object_each_b_obj o Hwf).
  Qed.

  Theorem array_values_w_enc v : wfb v = true -> top_ok v -> array_values_w (enc v) = Ok (option_map (map enc) (array_values_t v)).
  Proof.
    intros Hwf Htop. pose proof (is_jsonb_enc v Hwf Htop) as Hj.
    unfold array_values_w. rewrite Hj. clear Hj Htop. destruct v as [|b|s|n|l|o]; try (unfold array_values_b, AVS_JOFF, AVS_VOFF; rewrite scalar_hdr by reflexivity; reflexivity).
    - destruct (wf_arr l Hwf) as [Hall Hn].
      assert (Hl : Forall (fun x => wf_size x = true) l) by (eapply Forall_impl; [|exact Hall]; intros x; apply wfb_size).
      unfold array_values_b, AVS_JOFF, AVS_VOFF.
      assert (Ebs : enc (VArr l) = [] ++ payload (VArr l) ++ []) by (rewrite app_nil_r; reflexivity).
      rewrite Ebs. change 0 with (lenN (@nil N)) at 1. rewrite (read_hdr_arr [] l [] Hn).
      destruct (arr_hdr_facts l Hn) as (_ & -> & ->). rewrite N.eqb_refl.
      pose proof (values_loop_arr [] l [] Hl l [] eq_refl (S (length ([] ++ payload (VArr l) ++ [])))) as V.
      cbn [sum_len fold_right] in V. rewrite lenN_nil, N.mul_0_r, !N.add_0_r, !N.add_0_l in V. apply V.
      rewrite !app_length, payload_arr, !app_length, length_flat_words, map_length. lia.
    - destruct (obj_ok_of_wf o Hwf) as [Ho Hn]. unfold array_values_b, AVS_JOFF, AVS_VOFF.
      assert (Ebs : enc (VObj o) = [] ++ payload (VObj o) ++ []) by (rewrite app_nil_r; reflexivity).
      rewrite Ebs. change 0 with (lenN (@nil N)). rewrite (read_hdr_obj [] o [] Hn).
      destruct (obj_hdr_facts o Hn) as (_ & -> & _). reflexivity.
  Qed.

  Theorem get_by_keypath_w_enc v ks : wfb v = true -> top_ok v -> get_by_keypath_w (enc v) ks = Ok (option_map enc (get_by_keypath_t v ks)).
  Proof.
    intros Hwf Htop. pose proof (is_jsonb_enc v Hwf Htop) as Hj.
    unfold get_by_keypath_w. rewrite Hj. clear Hj Htop. unfold get_by_keypath_b.
    destruct (is_container v) eqn:Ec.
    - assert (Ebs : enc v = [] ++ payload v ++ []) by (rewrite app_nil_r; destruct v; try discriminate Ec; reflexivity).
      pose proof (keypath_loop_at ks v [] [] None Hwf (or_intror (conj eq_refl (conj Ec eq_refl)))) as K.
      rewrite lenN_nil in K. rewrite <- Ebs in K.
      destruct (get_by_keypath_t v ks) as [y|] eqn:Ey.
      + destruct K as (A' & B' & E' & Hy & Hk & Hpos). rewrite Hk. cbn [bind].
        destruct ks as [|k r].
        * cbn [get_by_keypath_t] in Ey. injection Ey as <-.
          injection Hk as Hk. rewrite <- Hk. reflexivity.
        * assert (P : 0 < lenN A') by (apply Hpos; discriminate).
          destruct (lenN A' =? 0) eqn:E0; [apply N.eqb_eq in E0; lia|].
          rewrite E'. rewrite (extract_value A' y B' _ (wfb_size y Hy) eq_refl). reflexivity.
      + rewrite K. reflexivity.
    - destruct ks as [|k r].
      + cbn [keypath_loop bind get_by_keypath_t option_map]. reflexivity.
      + rewrite (scalar_keypath_none v k r Ec). cbn [keypath_loop]. rewrite (scalar_hdr v Ec).
        destruct k; reflexivity.
  Qed.
