(* TreeWf.v — every tree operation maps well-shaped documents (keys strictly sorted and unique, strings UTF-8,
   numbers in range) to well-shaped documents; hence so does any chain of operations (C07). *)
From Coq Require Import List NArith ZArith Bool Lia.
Import ListNotations.
From JB Require Import Constants Bytes Utf8 Num NumProofs Value Codec Order OrderProofs CodecProofs RoundtripProofs
  TreeOps SetOps.
Open Scope N_scope.
Set Default Timeout 120.

Definition member_ok (kv : list N * value) : bool := bytes_okb (fst kv) && utf8_valid (fst kv) && wf_shape (snd kv).
Lemma wf_obj_iff o : wf_shape (VObj o) = true <-> keys_sorted o = true /\ forallb member_ok o = true.
Proof. cbn [wf_shape]. rewrite andb_true_iff. reflexivity. Qed.
Lemma wf_arr_iff l : wf_shape (VArr l) = true <-> forallb wf_shape l = true.
Proof. reflexivity. Qed.

(* ---- sortedness ---- *)
Lemma strong_keys_sorted {V} (l : list (list N * V)) : strongly_sorted l -> keys_sorted l = true.
Proof.
  induction l as [|[k v] r IH]; intros H; [reflexivity|]. cbn [strongly_sorted] in H. destruct H as [H1 H2].
  destruct r as [|[k2 v2] r2]; [reflexivity|]. specialize (IH H2).
  change (keys_sorted ((k, v) :: (k2, v2) :: r2)) with (bytes_ltb k k2 && keys_sorted ((k2, v2) :: r2)).
  rewrite IH, andb_true_r.
  inversion H1 as [|? ? Hk _]; subst. cbn [fst] in Hk. unfold bytes_ltb. rewrite Hk. reflexivity.
Qed.
Lemma sorted_iff {V} (l : list (list N * V)) : keys_sorted l = true <-> strongly_sorted l.
Proof. split; [apply keys_sorted_strong|apply strong_keys_sorted]. Qed.

Lemma strong_filter {V} (f : list N * V -> bool) (l : list (list N * V)) : strongly_sorted l -> strongly_sorted (filter f l).
Proof.
  induction l as [|[k v] r IH]; intros H; [exact I|]. cbn [strongly_sorted] in H. destruct H as [H1 H2].
  cbn [filter]. destruct (f (k, v)); [|apply IH; exact H2].
  cbn [strongly_sorted]. split; [|apply IH; exact H2].
  apply Forall_forall. intros kv Hin. apply filter_In in Hin. destruct Hin as [Hin _].
  rewrite Forall_forall in H1. apply H1. exact Hin.
Qed.
Lemma strong_map_values {V W} (g : V -> W) (l : list (list N * V)) :
  strongly_sorted l -> strongly_sorted (map (fun kv => (fst kv, g (snd kv))) l).
Proof.
  induction l as [|[k v] r IH]; intros H; [exact I|]. cbn [strongly_sorted] in H. destruct H as [H1 H2].
  cbn [map fst snd strongly_sorted]. split; [|apply IH; exact H2].
  apply Forall_forall. intros kv Hin. apply in_map_iff in Hin. destruct Hin as ([k' v'] & <- & Hin). cbn [fst snd].
  rewrite Forall_forall in H1. apply (H1 (k', v') Hin).
Qed.

Lemma strong_insert {V} k (v : V) (l : list (list N * V)) : strongly_sorted l -> strongly_sorted (assoc_insert k v l).
Proof.
  induction l as [|[k' v'] r IH]; intros H; cbn [assoc_insert]; [cbn; split; [constructor|exact I]|].
  cbn [strongly_sorted] in H. destruct H as [H1 H2].
  destruct (bytes_cmp k k') eqn:E.
  - apply bytes_cmp_eq in E. subst k'. cbn [strongly_sorted]. split; assumption.
  - cbn [strongly_sorted]. split; [|split; assumption].
    constructor; [exact E|]. eapply Forall_impl; [|exact H1]. intros kv Hkv. cbn beta in *.
    eapply (proj1 (bytes_trio k)); eauto.
  - cbn [strongly_sorted]. split; [|apply IH; exact H2].
    (* every key of the result is k or a key of r: all above k' *)
    assert (G : forall l0, Forall (fun kv : list N * V => bytes_cmp k' (fst kv) = Lt) l0 ->
                Forall (fun kv : list N * V => bytes_cmp k' (fst kv) = Lt) (assoc_insert k v l0)).
    { induction l0 as [|[k0 v0] l0 IH0]; intros F; cbn [assoc_insert].
      - constructor; [|constructor]. cbn [fst]. rewrite bytes_antisym, E. reflexivity.
      - inversion F as [|? ? F1 F2]; subst. destruct (bytes_cmp k k0).
        + constructor; [cbn [fst]; rewrite bytes_antisym, E; reflexivity|exact F2].
        + constructor; [cbn [fst]; rewrite bytes_antisym, E; reflexivity|constructor; assumption].
        + constructor; [exact F1|apply IH0; exact F2]. }
    apply G. exact H1.
Qed.

Lemma members_insert k v o : member_ok (k, v) = true -> forallb member_ok o = true -> forallb member_ok (assoc_insert k v o) = true.
Proof.
  intros Hk. induction o as [|[k' v'] o IH]; intros Ho; cbn [assoc_insert forallb]; [rewrite Hk; reflexivity|].
  cbn [forallb] in Ho. apply andb_true_iff in Ho. destruct Ho as [H1 H2].
  destruct (bytes_cmp k k'); cbn [forallb].
  - rewrite Hk. exact H2.
  - rewrite Hk, H1. exact H2.
  - rewrite H1. apply IH. exact H2.
Qed.
Lemma forallb_filter {A} (p f : A -> bool) l : forallb p l = true -> forallb p (filter f l) = true.
Proof. induction l as [|x l IH]; cbn [forallb filter]; [auto|]. intros H. apply andb_true_iff in H. destruct H. destruct (f x); cbn [forallb]; [rewrite H|]; auto. Qed.
Lemma forallb_app {A} (p : A -> bool) a b : forallb p (a ++ b) = forallb p a && forallb p b.
Proof. induction a; cbn [app forallb]; [reflexivity|]. rewrite IHa, andb_assoc. reflexivity. Qed.
Lemma forallb_firstn {A} (p : A -> bool) n l : forallb p l = true -> forallb p (firstn n l) = true.
Proof.
  revert l. induction n as [|n IH]; intros l H; [reflexivity|]. destruct l as [|x l]; [reflexivity|].
  cbn [firstn forallb] in *. apply andb_true_iff in H. destruct H as [H1 H2]. rewrite H1. apply IH. exact H2.
Qed.
Lemma forallb_skipn {A} (p : A -> bool) n l : forallb p l = true -> forallb p (skipn n l) = true.
Proof.
  revert l. induction n as [|n IH]; intros l H; [exact H|]. destruct l as [|x l]; [reflexivity|].
  cbn [skipn forallb] in *. apply andb_true_iff in H. destruct H as [H1 H2]. apply IH. exact H2.
Qed.
Lemma forallb_remove_nth {A} (p : A -> bool) n l : forallb p l = true -> forallb p (remove_nth l n) = true.
Proof.
  revert n. induction l as [|x l IH]; intros n H; [destruct n; reflexivity|].
  cbn [forallb] in H. apply andb_true_iff in H. destruct H as [H1 H2].
  destruct n as [|n]; cbn [remove_nth forallb]; [exact H2|]. rewrite H1. apply IH. exact H2.
Qed.
Lemma forallb_nth {A} (p : A -> bool) l n x : forallb p l = true -> nth_opt l n = Some x -> p x = true.
Proof.
  revert n. induction l as [|y l IH]; intros n H E; [destruct n; discriminate|].
  cbn [forallb] in H. apply andb_true_iff in H. destruct H as [H1 H2].
  destruct n as [|n]; cbn [nth_opt] in E; [inversion E; subst; exact H1|eapply IH; eauto].
Qed.

(* ---- each operation ---- *)
Lemma wf_concat a b : wf_shape a = true -> wf_shape b = true -> wf_shape (concat_t a b) = true.
Proof.
  intros Ha Hb. destruct a as [| | | |la|oa], b as [| | | |lb|ob]; cbn [concat_t wf_shape forallb] in *;
    rewrite ?Ha, ?Hb, ?forallb_app; cbn [forallb]; rewrite ?Ha, ?Hb, ?andb_true_r; auto.
  (* object ++ object *)
  apply andb_true_iff in Ha, Hb. destruct Ha as [Sa Ma], Hb as [Sb Mb]. fold member_ok in *.
  change (forallb (fun kv : list N * value => bytes_okb (fst kv) && utf8_valid (fst kv) && wf_shape (snd kv))) with (forallb member_ok) in *.
  assert (G : forall r l, strongly_sorted l -> forallb member_ok l = true -> forallb member_ok r = true ->
              strongly_sorted (fold_left (fun acc kv => assoc_insert (fst kv) (snd kv) acc) r l) /\
              forallb member_ok (fold_left (fun acc kv => assoc_insert (fst kv) (snd kv) acc) r l) = true).
  { induction r as [|[k v] r IH]; intros l Sl Ml Mr; cbn [fold_left]; [split; assumption|].
    cbn [forallb] in Mr. apply andb_true_iff in Mr. destruct Mr as [M1 M2].
    apply IH; [apply strong_insert; exact Sl|apply members_insert; assumption|exact M2]. }
  destruct (G ob oa (keys_sorted_strong _ Sa) Ma Mb) as [G1 G2].
  apply andb_true_iff. split; [apply strong_keys_sorted; exact G1|exact G2].
Qed.

Lemma wf_delete_by_name v name r : wf_shape v = true -> delete_by_name_t v name = Ok r -> wf_shape r = true.
Proof.
  intros Hv H. destruct v; cbn [delete_by_name_t] in H; try discriminate; inversion H; subst; cbn [wf_shape] in *.
  - apply forallb_filter. exact Hv.
  - apply andb_true_iff in Hv. destruct Hv as [S M]. apply andb_true_iff. split.
    + apply strong_keys_sorted. unfold assoc_remove. apply strong_filter. apply keys_sorted_strong. exact S.
    + unfold assoc_remove. apply forallb_filter. exact M.
Qed.
Lemma wf_delete_by_index v i r : wf_shape v = true -> delete_by_index_t v i = Ok r -> wf_shape r = true.
Proof.
  intros Hv H. destruct v; cbn [delete_by_index_t] in H; try discriminate.
  destruct (DBI_T_KEEP _ _); inversion H; subst; [|exact Hv]. cbn [wf_shape] in *. apply forallb_remove_nth. exact Hv.
Qed.
Lemma wf_array_insert v pos x : wf_shape v = true -> wf_shape x = true -> wf_shape (array_insert_t v pos x) = true.
Proof.
  intros Hv Hx. unfold array_insert_t. cbn [wf_shape]. rewrite !forallb_app. cbn [forallb]. rewrite Hx.
  assert (Hi : forallb wf_shape (match v with VArr l => l | other => [other] end) = true).
  { destruct v; cbn [forallb wf_shape] in *; rewrite ?Hv; auto. }
  rewrite forallb_firstn, forallb_skipn by exact Hi. reflexivity.
Qed.
Lemma wf_object_insert v k x upd r : wf_shape v = true -> wf_shape x = true -> bytes_okb k = true -> utf8_valid k = true ->
  object_insert_t v k x upd = Ok r -> wf_shape r = true.
Proof.
  intros Hv Hx Hk Hu H. destruct v; cbn [object_insert_t] in H; try discriminate.
  assert (G : wf_shape (VObj (assoc_insert k x l)) = true).
  { cbn [wf_shape] in *. apply andb_true_iff in Hv. destruct Hv as [S M]. apply andb_true_iff. split.
    - apply strong_keys_sorted. apply strong_insert. apply keys_sorted_strong. exact S.
    - apply members_insert; [unfold member_ok; cbn [fst snd]; rewrite Hk, Hu, Hx; reflexivity|exact M]. }
  destruct (assoc_lookup k l); [destruct upd; [|discriminate]|]; inversion H; subst; exact G.
Qed.
Lemma wf_object_filter (f : list N * value -> bool) o : wf_shape (VObj o) = true -> wf_shape (VObj (filter f o)) = true.
Proof.
  cbn [wf_shape]. intros Hv. apply andb_true_iff in Hv. destruct Hv as [S M]. apply andb_true_iff. split.
  - apply strong_keys_sorted. apply strong_filter. apply keys_sorted_strong. exact S.
  - apply forallb_filter. exact M.
Qed.
Lemma wf_object_delete v ks r : wf_shape v = true -> object_delete_t v ks = Ok r -> wf_shape r = true.
Proof. intros Hv H. destruct v; cbn [object_delete_t] in H; try discriminate. inversion H; subst. apply wf_object_filter. exact Hv. Qed.
Lemma wf_object_pick v ks r : wf_shape v = true -> object_pick_t v ks = Ok r -> wf_shape r = true.
Proof. intros Hv H. destruct v; cbn [object_pick_t] in H; try discriminate. inversion H; subst. apply wf_object_filter. exact Hv. Qed.

Lemma wf_strip_nulls v : wf_shape v = true -> wf_shape (strip_nulls_t v) = true.
Proof.
  induction v as [|b|s|n|l IH|o IH] using value_ind2; intros Hv; cbn [strip_nulls_t]; try exact Hv.
  - cbn [wf_shape] in *. rewrite forallb_forall in *. intros x Hx. apply in_map_iff in Hx. destruct Hx as (y & <- & Hy).
    rewrite Forall_forall in IH. apply IH; auto.
  - cbn [wf_shape] in Hv. apply andb_true_iff in Hv. destruct Hv as [S M].
    cbn [wf_shape]. apply andb_true_iff. split.
    + apply strong_keys_sorted. apply strong_filter. apply (strong_map_values strip_nulls_t). apply keys_sorted_strong. exact S.
    + apply forallb_filter. rewrite forallb_forall in *. intros kv Hkv. apply in_map_iff in Hkv. destruct Hkv as ([k x] & <- & Hin).
      cbn [fst snd]. specialize (M (k, x) Hin). cbn [fst snd] in M. apply andb_true_iff in M. destruct M as [M1 M2]. rewrite M1. cbn [andb].
      rewrite Forall_forall in IH. apply (IH (k, x) Hin). exact M2.
Qed.

Lemma wf_build_array vs : forallb wf_shape vs = true -> wf_shape (build_array_t vs) = true.
Proof. auto. Qed.
Lemma wf_build_object kvs : forallb member_ok kvs = true -> wf_shape (build_object_t kvs) = true.
Proof.
  intros H. unfold build_object_t, assoc_of_list. cbn [wf_shape].
  assert (G : forall r l, strongly_sorted l -> forallb member_ok l = true -> forallb member_ok r = true ->
              strongly_sorted (fold_left (fun acc kv => assoc_insert (fst kv) (snd kv) acc) r l) /\
              forallb member_ok (fold_left (fun acc kv => assoc_insert (fst kv) (snd kv) acc) r l) = true).
  { induction r as [|[k v] r IH]; intros l Sl Ml Mr; cbn [fold_left]; [split; assumption|].
    cbn [forallb] in Mr. apply andb_true_iff in Mr. destruct Mr as [M1 M2].
    apply IH; [apply strong_insert; exact Sl|apply members_insert; assumption|exact M2]. }
  destruct (G kvs [] I eq_refl H) as [G1 G2]. apply andb_true_iff. split; [apply strong_keys_sorted; exact G1|exact G2].
Qed.

Lemma wf_get_by_index v i x : wf_shape v = true -> get_by_index_t v i = Some x -> wf_shape x = true.
Proof. intros Hv H. destruct v; cbn [get_by_index_t] in H; try discriminate. destruct (lenN l <=? i); [discriminate H|]. eapply forallb_nth; eauto. Qed.
Lemma lookup_member k o (x : value) : assoc_lookup k o = Some x -> In x (map snd o).
Proof. induction o as [|[k' v'] o IH]; cbn [assoc_lookup map snd]; [discriminate|]. destruct (bytes_eqb k k'); intros H; [inversion H; subst; left; reflexivity|right; auto]. Qed.
Lemma first_ci_member k o (x : value) : first_ci k o = Some x -> In x (map snd o).
Proof. induction o as [|[k' v'] o IH]; cbn [first_ci map snd]; [discriminate|]. destruct (eq_ignore_ascii_case k k'); intros H; [inversion H; subst; left; reflexivity|right; auto]. Qed.
Lemma members_values o x : forallb member_ok o = true -> In x (map snd o) -> wf_shape x = true.
Proof.
  intros M H. apply in_map_iff in H. destruct H as ([k v] & <- & Hin). rewrite forallb_forall in M.
  specialize (M (k, v) Hin). unfold member_ok in M. apply andb_true_iff in M. apply M.
Qed.
Lemma wf_get_by_name v name ic x : wf_shape v = true -> get_by_name_t v name ic = Some x -> wf_shape x = true.
Proof.
  intros Hv H. destruct v; cbn [get_by_name_t] in H; try discriminate.
  cbn [wf_shape] in Hv. apply andb_true_iff in Hv. destruct Hv as [_ M].
  destruct (assoc_lookup name l) eqn:E.
  - inversion H; subst. eapply members_values; eauto. eapply lookup_member; eauto.
  - destruct ic; [|discriminate]. eapply members_values; eauto. eapply first_ci_member; eauto.
Qed.

Lemma wf_items v : wf_shape v = true -> forallb wf_shape (items_of v) = true.
Proof. destruct v; cbn [items_of forallb wf_shape]; intros H; rewrite ?H; auto. Qed.
Lemma forallb_sub {A} (p : A -> bool) l l' : (forall x, In x l' -> In x l) -> forallb p l = true -> forallb p l' = true.
Proof. intros S H. rewrite forallb_forall in *. auto. Qed.
Lemma distinct_sub seen l x : In x (distinct_acc seen l) -> In x l.
Proof. revert seen. induction l as [|y l IH]; intros seen; cbn [distinct_acc]; [auto|]. destruct (existsb _ seen); [right; eauto|]. intros [->|H]; [left; reflexivity|right; eauto]. Qed.
Lemma inter_sub l : forall m x, In x (inter_acc l m) -> In x l.
Proof. induction l as [|y l IH]; intros m x; cbn [inter_acc]; [auto|]. destruct (take_one y m); [intros [->|H]; [left; reflexivity|right; eauto]|right; eauto]. Qed.
Lemma except_sub l : forall m x, In x (except_acc l m) -> In x l.
Proof. induction l as [|y l IH]; intros m x; cbn [except_acc]; [auto|]. destruct (take_one y m); [right; eauto|intros [->|H]; [left; reflexivity|right; eauto]]. Qed.
Lemma wf_distinct v : wf_shape v = true -> wf_shape (array_distinct_t v) = true.
Proof. intros H. cbn. eapply forallb_sub; [apply distinct_sub|apply wf_items; exact H]. Qed.
Lemma wf_intersection a b : wf_shape a = true -> wf_shape (array_intersection_t a b) = true.
Proof. intros H. cbn. eapply forallb_sub; [apply inter_sub|apply wf_items; exact H]. Qed.
Lemma wf_except a b : wf_shape a = true -> wf_shape (array_except_t a b) = true.
Proof. intros H. cbn. eapply forallb_sub; [apply except_sub|apply wf_items; exact H]. Qed.

Lemma wf_normalise v : wf_shape v = true -> wf_shape (normalise v) = true.
Proof.
  induction v as [|b|s|n|l IH|o IH] using value_ind2; intros Hv; cbn [normalise]; try exact Hv.
  - cbn [wf_shape] in *. destruct n as [z|u|b]; cbn [normalise_num]; try exact Hv.
    + destruct (z =? 0)%Z; [reflexivity|exact Hv].
    + destruct (f_is_nan b); [reflexivity|exact Hv].
  - cbn [wf_shape] in *. rewrite forallb_forall in *. intros x Hx. apply in_map_iff in Hx. destruct Hx as (y & <- & Hy).
    rewrite Forall_forall in IH. apply IH; auto.
  - cbn [wf_shape] in Hv. apply andb_true_iff in Hv. destruct Hv as [S M]. cbn [wf_shape]. apply andb_true_iff. split.
    + apply strong_keys_sorted. apply (strong_map_values normalise). apply keys_sorted_strong. exact S.
    + rewrite forallb_forall in *. intros kv Hkv. apply in_map_iff in Hkv. destruct Hkv as ([k x] & <- & Hin).
      cbn [fst snd]. specialize (M (k, x) Hin). cbn [fst snd] in M. apply andb_true_iff in M. destruct M as [M1 M2]. rewrite M1. cbn [andb].
      rewrite Forall_forall in IH. apply (IH (k, x) Hin). exact M2.
Qed.

(* ---- chains: an operation language over a register file of documents ---- *)
Inductive op :=
| OConcat (a b : nat) | ODeleteByName (a : nat) (name : list N) | ODeleteByIndex (a : nat) (i : Z)
| OArrayInsert (a : nat) (pos : Z) (b : nat) | OObjectInsert (a : nat) (k : list N) (b : nat) (upd : bool)
| OObjectDelete (a : nat) (ks : list (list N)) | OObjectPick (a : nat) (ks : list (list N)) | OStripNulls (a : nat)
| OBuildArray (rs : list nat) | OBuildObject (ks : list (list N)) (rs : list nat)
| OGetByIndex (a : nat) (i : N) | OGetByName (a : nat) (name : list N) (ic : bool)
| ODistinct (a : nat) | OIntersection (a b : nat) | OExcept (a b : nat) | OReencode (a : nat).

Definition reg (regs : list value) (a : nat) : value := nth a regs VNull.
Definition key_ok (k : list N) : bool := bytes_okb k && utf8_valid k.
(* the result of one operation on the register file: Some new document, or None (error / absent: registers unchanged) *)
Definition step_doc (regs : list value) (o : op) : option value :=
  match o with
  | OConcat a b => Some (concat_t (reg regs a) (reg regs b))
  | ODeleteByName a name => match delete_by_name_t (reg regs a) name with Ok r => Some r | _ => None end
  | ODeleteByIndex a i => match delete_by_index_t (reg regs a) i with Ok r => Some r | _ => None end
  | OArrayInsert a pos b => Some (array_insert_t (reg regs a) pos (reg regs b))
  | OObjectInsert a k b upd => if key_ok k then match object_insert_t (reg regs a) k (reg regs b) upd with Ok r => Some r | _ => None end else None
  | OObjectDelete a ks => match object_delete_t (reg regs a) ks with Ok r => Some r | _ => None end
  | OObjectPick a ks => match object_pick_t (reg regs a) ks with Ok r => Some r | _ => None end
  | OStripNulls a => Some (strip_nulls_t (reg regs a))
  | OBuildArray rs => Some (build_array_t (map (reg regs) rs))
  | OBuildObject ks rs => if forallb key_ok ks then Some (build_object_t (combine ks (map (reg regs) rs))) else None
  | OGetByIndex a i => get_by_index_t (reg regs a) i
  | OGetByName a name ic => get_by_name_t (reg regs a) name ic
  | ODistinct a => Some (array_distinct_t (reg regs a))
  | OIntersection a b => Some (array_intersection_t (reg regs a) (reg regs b))
  | OExcept a b => Some (array_except_t (reg regs a) (reg regs b))
  | OReencode a => Some (normalise (reg regs a))
  end.
Definition step (regs : list value) (o : op) : list value :=
  match step_doc regs o with Some d => regs ++ [d] | None => regs end.
Definition run (regs : list value) (ops : list op) : list value := fold_left step ops regs.

Definition Inv (regs : list value) : Prop := Forall (fun v => wf_shape v = true) regs.

Lemma reg_wf regs a : Inv regs -> wf_shape (reg regs a) = true.
Proof.
  intros H. unfold Inv in H. unfold reg. destruct (Nat.lt_ge_cases a (length regs)) as [L|L].
  - rewrite Forall_forall in H. apply H. apply nth_In. exact L.
  - rewrite nth_overflow by lia. reflexivity.
Qed.

Lemma step_doc_wf regs o d : Inv regs -> step_doc regs o = Some d -> wf_shape d = true.
Proof.
  intros HI H. destruct o; cbn [step_doc] in H.
  - inversion H; subst. apply wf_concat; apply reg_wf; exact HI.
  - destruct (delete_by_name_t _ _) eqn:E; try discriminate. inversion H; subst. eapply wf_delete_by_name; [|exact E]. apply reg_wf; exact HI.
  - destruct (delete_by_index_t _ _) eqn:E; try discriminate. inversion H; subst. eapply wf_delete_by_index; [|exact E]. apply reg_wf; exact HI.
  - inversion H; subst. apply wf_array_insert; apply reg_wf; exact HI.
  - destruct (key_ok k) eqn:K; [|discriminate]. unfold key_ok in K. apply andb_true_iff in K. destruct K as [K1 K2].
    destruct (object_insert_t _ _ _ _) eqn:E; try discriminate. inversion H; subst.
    eapply wf_object_insert; [| | | |exact E]; auto; apply reg_wf; exact HI.
  - destruct (object_delete_t _ _) eqn:E; try discriminate. inversion H; subst. eapply wf_object_delete; [|exact E]. apply reg_wf; exact HI.
  - destruct (object_pick_t _ _) eqn:E; try discriminate. inversion H; subst. eapply wf_object_pick; [|exact E]. apply reg_wf; exact HI.
  - inversion H; subst. apply wf_strip_nulls. apply reg_wf; exact HI.
  - inversion H; subst. apply wf_build_array. rewrite forallb_forall. intros x Hx. apply in_map_iff in Hx. destruct Hx as (a & <- & _). apply reg_wf; exact HI.
  - destruct (forallb key_ok ks) eqn:K; [|discriminate]. inversion H; subst. apply wf_build_object.
    rewrite forallb_forall. intros [k x] Hin. pose proof (in_combine_l _ _ _ _ Hin) as Hk. pose proof (in_combine_r _ _ _ _ Hin) as Hx.
    rewrite forallb_forall in K. specialize (K k Hk). unfold member_ok, key_ok in *. cbn [fst snd]. rewrite K. cbn [andb].
    apply in_map_iff in Hx. destruct Hx as (a & <- & _). apply reg_wf; exact HI.
  - eapply wf_get_by_index; [|exact H]. apply reg_wf; exact HI.
  - eapply wf_get_by_name; [|exact H]. apply reg_wf; exact HI.
  - inversion H; subst. apply wf_distinct. apply reg_wf; exact HI.
  - inversion H; subst. apply wf_intersection. apply reg_wf; exact HI.
  - inversion H; subst. apply wf_except. apply reg_wf; exact HI.
  - inversion H; subst. apply wf_normalise. apply reg_wf; exact HI.
Qed.

Lemma step_inv regs o : Inv regs -> Inv (step regs o).
Proof.
  intros H. unfold step. destruct (step_doc regs o) as [d|] eqn:E; [|exact H].
  apply Forall_app. split; [exact H|]. constructor; [|constructor]. eapply step_doc_wf; eauto.
Qed.

(* every document reachable by any finite sequence of operations is well-shaped *)
Theorem chain_inv ops : forall regs, Inv regs -> Inv (run regs ops).
Proof. induction ops as [|o ops IH]; intros regs H; cbn [run fold_left]; [exact H|]. apply IH. apply step_inv. exact H. Qed.

(* a well-shaped document within the size bounds is canonical: it decodes, re-encodes to the identical bytes,
   and byte equality coincides with identity of the encoded entry *)
Theorem canonical_of_wf v : wf_shape v = true -> wf_size v = true ->
  parse_jsonb (enc v) = Ok (normalise v) /\ enc (normalise v) = enc v.
Proof.
  intros H1 H2. split; [apply parse_jsonb_enc; unfold wfb; rewrite H1, H2; reflexivity|apply enc_normalise].
Qed.
