(* CodecProofs.v — the encoder of ser.rs (growing buffer, reserve_jentries, replace_jentry back-patching) writes
   exactly the README layout and only appends: encode_value buf v = (buf ++ payload v, entry v).  (C01, C17) *)
From Coq Require Import List NArith ZArith Bool Lia.
Import ListNotations.
From JB Require Import Constants Bytes Utf8 Num Value Codec Order.
Open Scope N_scope.
Set Default Timeout 120.

Arguments N.lor : simpl never.
Arguments N.land : simpl never.
Arguments be32 : simpl never.
Arguments u32 : simpl never.

Definition payload (v : value) : list N := snd (enc_item v).
Definition ent (v : value) : je := (tag_of v, u32 (lenN (payload v))).

Lemma be32_len w : length (be32 w) = 4%nat. Proof. reflexivity. Qed.

Lemma ent_word v : je_encoded (ent v) = fst (enc_item v).
Proof.
  destruct v as [|[]|s|n|l|o]; unfold ent, je_encoded, payload; cbn [enc_item fst snd tag_of]; try reflexivity.
Qed.

(* replace 4 bytes at index |pre| *)
Lemma patch_app pre mid post w :
  length mid = length w -> patch (pre ++ mid ++ post) (length pre) w = pre ++ w ++ post.
Proof.
  intros H. induction pre as [|p pre IH]; cbn [app length patch].
  - assert (E : patch (mid ++ post) 0 w = w ++ skipn (length w) (mid ++ post)) by (destruct (mid ++ post); reflexivity).
    rewrite E, <- H, skipn_app, skipn_all, Nat.sub_diag. reflexivity.
  - f_equal. apply IH.
Qed.

Lemma lenN_app {A} (a b : list A) : lenN (a ++ b) = lenN a + lenN b.
Proof. unfold lenN. rewrite app_length. lia. Qed.
Lemma lenN_be32 w : lenN (be32 w) = 4. Proof. reflexivity. Qed.
Lemma u32_small n : n < 4294967296 -> u32 n = n.
Proof. intros H. unfold u32. apply N.mod_small. exact H. Qed.

Lemma compact_encode_len n : (length (compact_encode n) <= 9)%nat.
Proof.
  destruct n as [z|u|b]; cbn [compact_encode]; unfold CE_INT_ZERO, CE_UINT_ZERO.
  - destruct (z =? 0)%Z; [cbn; lia|]. unfold int_width, CE_INT_FITS1, CE_INT_FITS2, CE_INT_FITS3, CE_INT_W1, CE_INT_W2, CE_INT_W3, CE_INT_W4.
    repeat match goal with |- context [if ?c then _ else _] => destruct c end; cbn; lia.
  - destruct (u =? 0); [cbn; lia|]. unfold uint_width, CE_UINT_FITS1, CE_UINT_FITS2, CE_UINT_FITS3, CE_UINT_W1, CE_UINT_W2, CE_UINT_W3, CE_UINT_W4.
    repeat match goal with |- context [if ?c then _ else _] => destruct c end; cbn; lia.
  - repeat match goal with |- context [if ?c then _ else _] => destruct c end; cbn; lia.
Qed.

(* under the size bounds the length field of an entry is the exact payload length *)
Lemma ent_len v : wf_size v = true -> snd (ent v) = lenN (payload v).
Proof.
  intros H. unfold ent. cbn [snd]. apply u32_small.
  destruct v as [|[]|s|n|l|o]; unfold payload; cbn [enc_item snd]; try (cbn; lia).
  - cbn [wf_size] in H. apply N.ltb_lt in H. lia.
  - pose proof (compact_encode_len n). unfold lenN. lia.
  - cbn [wf_size] in H. apply andb_true_iff in H. destruct H as [H _]. apply andb_true_iff in H. destruct H as [_ H].
    apply N.ltb_lt in H. cbn [enc_item snd] in H. lia.
  - cbn [wf_size] in H. apply andb_true_iff in H. destruct H as [H _]. apply andb_true_iff in H. destruct H as [_ H].
    apply N.ltb_lt in H. cbn [enc_item snd] in H. lia.
Qed.

Definition sum_len (l : list value) : N := fold_right (fun v a => lenN (payload v) + a) 0 l.

Lemma len_flat_be32 {A} (f : A -> N) (l : list A) : lenN (flat_map (fun x => be32 (f x)) l) = 4 * lenN l.
Proof.
  induction l as [|x r IH]; cbn [flat_map]; [reflexivity|]. rewrite lenN_app, IH, lenN_be32.
  unfold lenN. cbn [length]. lia.
Qed.
Lemma length_flat_be32 {A} (f : A -> N) (l : list A) : length (flat_map (fun x => be32 (f x)) l) = (4 * length l)%nat.
Proof. induction l as [|x r IH]; cbn [flat_map length]; [reflexivity|]. rewrite app_length, IH, be32_len. lia. Qed.
Lemma len_flat_payload (l : list value) : lenN (flat_map payload l) = sum_len l.
Proof. induction l as [|x r IH]; cbn [flat_map sum_len fold_right]; [reflexivity|]. rewrite lenN_app, IH. reflexivity. Qed.

Definition spec_ok (v : value) : Prop := forall b, encode_value b v = (b ++ payload v, ent v).

(* the loop over array elements: invariant of the back-patching *)
Lemma enc_values_spec (todo : list value) :
  Forall spec_ok todo -> Forall (fun v => wf_size v = true) todo ->
  forall pre done_je done_pl acc,
    enc_values encode_value (pre ++ done_je ++ repeat 0 (4 * length todo) ++ done_pl) (length (pre ++ done_je)) acc todo
    = (pre ++ done_je ++ flat_map (fun v => be32 (fst (enc_item v))) todo ++ done_pl ++ flat_map payload todo,
       (length (pre ++ done_je) + 4 * length todo)%nat, acc + sum_len todo).
Proof.
  induction todo as [|x todo IH]; intros Hs Hw pre done_je done_pl acc.
  - cbn [enc_values flat_map length repeat sum_len fold_right app]. rewrite !app_nil_r, Nat.mul_0_r, Nat.add_0_r, N.add_0_r. reflexivity.
  - inversion Hs as [|? ? Hx Hs']; subst. inversion Hw as [|? ? Wx Hw']; subst.
    cbn [enc_values]. rewrite Hx. unfold replace_jentry.
    replace (4 * length (x :: todo))%nat with (4 + 4 * length todo)%nat by (cbn [length]; lia).
    rewrite repeat_app.
    replace ((pre ++ done_je ++ (repeat 0 4 ++ repeat 0 (4 * length todo)) ++ done_pl) ++ payload x)
      with ((pre ++ done_je) ++ repeat 0 4 ++ (repeat 0 (4 * length todo) ++ done_pl ++ payload x))
      by (repeat rewrite <- app_assoc; reflexivity).
    rewrite patch_app by reflexivity.
    rewrite ent_word, (ent_len x Wx).
    specialize (IH Hs' Hw' pre (done_je ++ be32 (fst (enc_item x))) (done_pl ++ payload x) (acc + lenN (payload x))).
    replace ((pre ++ done_je) ++ be32 (fst (enc_item x)) ++ repeat 0 (4 * length todo) ++ done_pl ++ payload x)
      with (pre ++ (done_je ++ be32 (fst (enc_item x))) ++ repeat 0 (4 * length todo) ++ done_pl ++ payload x)
      by (repeat rewrite <- app_assoc; reflexivity).
    replace (length (pre ++ done_je) + 4)%nat with (length (pre ++ done_je ++ be32 (fst (enc_item x))))
      by (rewrite !app_length, be32_len; lia).
    rewrite IH. cbn [flat_map sum_len fold_right]. f_equal; [f_equal|].
    + repeat rewrite <- app_assoc. reflexivity.
    + rewrite !app_length, be32_len. cbn [length]. lia.
    + unfold sum_len. cbn [fold_right map snd fst]. lia.
Qed.

(* the same loop over object members (values) *)
Lemma enc_members_spec (todo : list (list N * value)) :
  Forall (fun kv => spec_ok (snd kv)) todo -> Forall (fun kv => wf_size (snd kv) = true) todo ->
  forall pre done_je done_pl acc,
    enc_members encode_value (pre ++ done_je ++ repeat 0 (4 * length todo) ++ done_pl) (length (pre ++ done_je)) acc todo
    = (pre ++ done_je ++ flat_map (fun kv => be32 (fst (enc_item (snd kv)))) todo ++ done_pl ++ flat_map (fun kv => payload (snd kv)) todo,
       (length (pre ++ done_je) + 4 * length todo)%nat, acc + sum_len (map snd todo)).
Proof.
  induction todo as [|[k x] todo IH]; intros Hs Hw pre done_je done_pl acc.
  - cbn [enc_members flat_map length repeat sum_len fold_right app map]. rewrite !app_nil_r, Nat.mul_0_r, Nat.add_0_r, N.add_0_r. reflexivity.
  - inversion Hs as [|? ? Hx Hs']; subst. inversion Hw as [|? ? Wx Hw']; subst. cbn [snd] in Hx, Wx.
    cbn [enc_members]. rewrite Hx. unfold replace_jentry.
    replace (4 * length ((k, x) :: todo))%nat with (4 + 4 * length todo)%nat by (cbn [length]; lia).
    rewrite repeat_app.
    replace ((pre ++ done_je ++ (repeat 0 4 ++ repeat 0 (4 * length todo)) ++ done_pl) ++ payload x)
      with ((pre ++ done_je) ++ repeat 0 4 ++ (repeat 0 (4 * length todo) ++ done_pl ++ payload x))
      by (repeat rewrite <- app_assoc; reflexivity).
    rewrite patch_app by reflexivity.
    rewrite ent_word, (ent_len x Wx).
    specialize (IH Hs' Hw' pre (done_je ++ be32 (fst (enc_item x))) (done_pl ++ payload x) (acc + lenN (payload x))).
    replace ((pre ++ done_je) ++ be32 (fst (enc_item x)) ++ repeat 0 (4 * length todo) ++ done_pl ++ payload x)
      with (pre ++ (done_je ++ be32 (fst (enc_item x))) ++ repeat 0 (4 * length todo) ++ done_pl ++ payload x)
      by (repeat rewrite <- app_assoc; reflexivity).
    replace (length (pre ++ done_je) + 4)%nat with (length (pre ++ done_je ++ be32 (fst (enc_item x))))
      by (rewrite !app_length, be32_len; lia).
    rewrite IH. cbn [flat_map sum_len fold_right map snd]. f_equal; [f_equal|].
    + repeat rewrite <- app_assoc. reflexivity.
    + rewrite !app_length, be32_len. cbn [length]. lia.
    + unfold sum_len. cbn [fold_right map snd fst]. lia.
Qed.

Definition sum_keys (l : list (list N * value)) : N := fold_right (fun kv a => lenN (fst kv) + a) 0 l.
(* the loop over object keys: key bytes are appended, their entry words patched; `tail` = the value entry slots *)
Lemma enc_keys_spec (todo : list (list N * value)) :
  Forall (fun kv => lenN (fst kv) < 268435456) todo ->
  forall pre done_je tail done_keys acc,
    enc_keys (pre ++ done_je ++ repeat 0 (4 * length todo) ++ tail ++ done_keys) (length (pre ++ done_je)) acc todo
    = (pre ++ done_je ++ flat_map (fun kv => be32 (jentry_word STRING_TAG (lenN (fst kv)))) todo ++ tail ++ done_keys ++ flat_map fst todo,
       (length (pre ++ done_je) + 4 * length todo)%nat, acc + sum_keys todo).
Proof.
  induction todo as [|[k x] todo IH]; intros Hk pre done_je tail done_keys acc.
  - cbn [enc_keys flat_map length repeat sum_keys fold_right app]. rewrite !app_nil_r, Nat.mul_0_r, Nat.add_0_r, N.add_0_r. reflexivity.
  - inversion Hk as [|? ? Kx Hk']; subst. cbn [fst] in Kx.
    cbn [enc_keys]. unfold replace_jentry.
    replace (4 * length ((k, x) :: todo))%nat with (4 + 4 * length todo)%nat by (cbn [length]; lia).
    rewrite repeat_app.
    replace ((pre ++ done_je ++ (repeat 0 4 ++ repeat 0 (4 * length todo)) ++ tail ++ done_keys) ++ k)
      with ((pre ++ done_je) ++ repeat 0 4 ++ (repeat 0 (4 * length todo) ++ tail ++ done_keys ++ k))
      by (repeat rewrite <- app_assoc; reflexivity).
    rewrite patch_app by reflexivity.
    change (je_encoded (STRING_TAG, u32 (lenN k))) with (jentry_word STRING_TAG (lenN k)).
    specialize (IH Hk' pre (done_je ++ be32 (jentry_word STRING_TAG (lenN k))) tail (done_keys ++ k) (acc + lenN k)).
    replace ((pre ++ done_je) ++ be32 (jentry_word STRING_TAG (lenN k)) ++ repeat 0 (4 * length todo) ++ tail ++ done_keys ++ k)
      with (pre ++ (done_je ++ be32 (jentry_word STRING_TAG (lenN k))) ++ repeat 0 (4 * length todo) ++ tail ++ (done_keys ++ k))
      by (repeat rewrite <- app_assoc; reflexivity).
    replace (length (pre ++ done_je) + 4)%nat with (length (pre ++ done_je ++ be32 (jentry_word STRING_TAG (lenN k))))
      by (rewrite !app_length, be32_len; lia).
    rewrite IH. cbn [flat_map sum_keys fold_right fst]. f_equal; [f_equal|].
    + repeat rewrite <- app_assoc. reflexivity.
    + rewrite !app_length, be32_len. cbn [length]. lia.
    + unfold sum_keys. cbn [fold_right map snd fst]. lia.
Qed.

Lemma wf_size_arr l : wf_size (VArr l) = true -> Forall (fun v => wf_size v = true) l.
Proof.
  cbn [wf_size]. intros H. apply andb_true_iff in H. destruct H as [_ H]. rewrite forallb_forall in H.
  apply Forall_forall. exact H.
Qed.
Lemma wf_size_obj o : wf_size (VObj o) = true ->
  Forall (fun kv => wf_size (snd kv) = true) o /\ Forall (fun kv => lenN (fst kv) < 268435456) o.
Proof.
  cbn [wf_size]. intros H. apply andb_true_iff in H. destruct H as [_ H]. rewrite forallb_forall in H.
  split; apply Forall_forall; intros kv Hin; specialize (H kv Hin); apply andb_true_iff in H; destruct H as [H1 H2].
  - exact H2.
  - apply N.ltb_lt. exact H1.
Qed.

Lemma flat_map_map {A B C} (f : A -> B) (g : B -> list C) l : flat_map g (map f l) = flat_map (fun x => g (f x)) l.
Proof. induction l; cbn [map flat_map]; [reflexivity|rewrite IHl; reflexivity]. Qed.

(* ---- the encoder writes the layout and only appends ---- *)
Theorem encode_value_spec v : wf_size v = true -> forall buf, encode_value buf v = (buf ++ payload v, ent v).
Proof.
  induction v as [|b|s|n|l IH|o IH] using value_ind2; intros Hw buf.
  - cbn. rewrite app_nil_r. reflexivity.
  - destruct b; cbn; rewrite app_nil_r; reflexivity.
  - reflexivity.
  - reflexivity.
  - pose proof (wf_size_arr l Hw) as Hall.
    assert (Hs : Forall spec_ok l).
    { rewrite Forall_forall in *. intros x Hx b. apply IH; auto. }
    cbn [encode_value]. unfold reserve_jentries.
    pose proof (enc_values_spec l Hs Hall (buf ++ be32 (header_word ARRAY_CONTAINER_TAG (lenN l))) [] [] (4 + lenN l * 4)) as E.
    cbn [app] in E. rewrite !app_nil_r in E.
    replace (length l * 4)%nat with (4 * length l)%nat by lia.
    rewrite E. unfold ent, payload. cbn [enc_item snd tag_of].
    rewrite !flat_map_map. f_equal.
    + rewrite <- !app_assoc. reflexivity.
    + f_equal. f_equal. rewrite !lenN_app, lenN_be32, len_flat_be32.
      change (fun x : value => snd (enc_item x)) with payload.
      rewrite len_flat_payload. lia.
  - destruct (wf_size_obj o Hw) as [Hall Hkeys].
    assert (Hs : Forall (fun kv => spec_ok (snd kv)) o).
    { rewrite Forall_forall in *. intros kv Hx b. apply IH; auto. }
    cbn [encode_value]. unfold reserve_jentries.
    set (pre := buf ++ be32 (header_word OBJECT_CONTAINER_TAG (lenN o))).
    replace (length o * 8)%nat with (4 * length o + 4 * length o)%nat by lia.
    rewrite repeat_app.
    pose proof (enc_keys_spec o Hkeys pre [] (repeat 0 (4 * length o)) [] (4 + lenN o * 8)) as EK.
    cbn [app] in EK. rewrite !app_nil_r in EK. rewrite EK. clear EK.
    set (kj := flat_map (fun kv => be32 (jentry_word STRING_TAG (lenN (fst kv)))) o).
    pose proof (enc_members_spec o Hs Hall (pre ++ kj) [] (flat_map fst o) (4 + lenN o * 8 + sum_keys o)) as EM.
    cbn [app] in EM. rewrite !app_nil_r in EM.
    replace (length pre + 4 * length o)%nat with (length (pre ++ kj)).
    2:{ unfold kj. rewrite app_length. f_equal.
        apply (length_flat_be32 (fun kv : list N * value => jentry_word STRING_TAG (lenN (fst kv))) o). }
    replace (pre ++ kj ++ repeat 0 (4 * length o) ++ flat_map fst o) with ((pre ++ kj) ++ repeat 0 (4 * length o) ++ flat_map fst o)
      by (rewrite <- app_assoc; reflexivity).
    rewrite EM. clear EM. unfold ent, payload. cbn [enc_item snd tag_of].
    rewrite !flat_map_map. unfold pre, kj. f_equal.
    + rewrite <- !app_assoc. reflexivity.
    + f_equal. f_equal. rewrite !lenN_app, lenN_be32, !len_flat_be32.
      assert (K : lenN (flat_map (fun kv : list N * value => fst kv) o) = sum_keys o).
      { clear. induction o as [|[k x] o IHo]; cbn [flat_map sum_keys fold_right fst]; [reflexivity|]. rewrite lenN_app, IHo. reflexivity. }
      rewrite K.
      assert (P : lenN (flat_map (fun x : list N * value => snd (enc_item (snd x))) o) = sum_len (map snd o)).
      { clear. induction o as [|[k x] o IHo]; cbn [flat_map sum_len fold_right map snd]; [reflexivity|]. rewrite lenN_app, IHo. reflexivity. }
      rewrite P. lia.
Qed.

(* Value::write_to_vec appends exactly the document encoding; to_vec is the README layout *)
Theorem write_to_vec_spec v : wf_size v = true -> forall buf, write_to_vec buf v = buf ++ enc v.
Proof.
  intros Hw buf. unfold write_to_vec, enc.
  destruct v as [|b|s|n|l|o]; try (rewrite (encode_value_spec _ Hw); reflexivity).
  all: unfold reserve_jentries; cbv beta iota zeta; rewrite (encode_value_spec _ Hw); unfold replace_jentry; cbn [fst];
    rewrite <- (app_assoc (buf ++ be32 SCALAR_CONTAINER_TAG)); rewrite patch_app by reflexivity; rewrite ent_word;
    unfold payload; rewrite <- !app_assoc; reflexivity.
Qed.

Theorem to_vec_is_layout v : wf_size v = true -> to_vec v = enc v.
Proof. intros H. unfold to_vec. rewrite (write_to_vec_spec v H []). reflexivity. Qed.
