(* Bytes.v — bytes, outcomes, big-endian words, bounds-checked slices, lexicographic order.
   Executable definitions only (plus a few structural lemmas used everywhere). *)
From Coq Require Import List NArith ZArith Bool Lia.
Import ListNotations.
Open Scope N_scope.

Notation byte := N (only parsing).
Notation bytes := (list N) (only parsing).

(* error classes: only the kinds some property distinguishes are kept apart *)
Inductive err :=
| EOther            (* any other Error variant *)
| EInvalidJsonType
| EInvalidObject
| EDupKey           (* ObjectDuplicateKey *)
| EInvalidPredicate (* InvalidJsonPathPredicate *)
| EFuel.            (* model artefact: recursion fuel exhausted (proved unreachable with the fuel passed) *)

Inductive res (A : Type) := Ok (a : A) | Err (e : err) | Panic.
Arguments Ok {A} a. Arguments Err {A} e. Arguments Panic {A}.

Definition bind {A B} (r : res A) (f : A -> res B) : res B :=
  match r with Ok a => f a | Err e => Err e | Panic => Panic end.
Notation "'do' x <- e ; f" := (bind e (fun x => f)) (at level 200, x pattern, e at level 100, f at level 200).

Definition of_option {A} (e : err) (o : option A) : res A :=
  match o with Some a => Ok a | None => Err e end.
Definition or_panic {A} (o : option A) : res A :=
  match o with Some a => Ok a | None => Panic end.
Definition res_map {A B} (f : A -> B) (r : res A) : res B :=
  match r with Ok a => Ok (f a) | Err e => Err e | Panic => Panic end.
Definition is_ok {A} (r : res A) : bool := match r with Ok _ => true | _ => false end.

Definition lenN {A} (l : list A) : N := N.of_nat (length l).

(* big-endian u32 *)
Definition be32 (w : N) : list N :=
  [ (w / 16777216) mod 256; (w / 65536) mod 256; (w / 256) mod 256; w mod 256 ].

Definition rd32 (bs : list N) : option (N * list N) :=
  match bs with
  | a :: b :: c :: d :: rest => Some (a * 16777216 + b * 65536 + c * 256 + d, rest)
  | _ => None
  end.

(* big-endian k bytes of n (low 8k bits) *)
Fixpoint be_bytes (k : nat) (n : N) : list N :=
  match k with
  | O => []
  | S k' => be_bytes k' (n / 256) ++ [n mod 256]
  end.

Fixpoint rd_be (bs : list N) (acc : N) : N :=
  match bs with [] => acc | b :: r => rd_be r (acc * 256 + b) end.

(* bounds-checked slice value[off .. off+len]; None where the Rust index expression panics *)
Definition slice (bs : list N) (off len : N) : option (list N) :=
  if off + len <=? lenN bs then Some (firstn (N.to_nat len) (skipn (N.to_nat off) bs)) else None.
(* value[off..] *)
Definition slice_from (bs : list N) (off : N) : option (list N) :=
  if off <=? lenN bs then Some (skipn (N.to_nat off) bs) else None.
(* read_u32(buf, idx): Err on short input, never panics *)
Definition read_u32 (bs : list N) (idx : N) : option N :=
  match slice bs idx 4 with
  | Some w => match rd32 w with Some (x, _) => Some x | None => None end
  | None => None
  end.

Fixpoint lex {A} (c : A -> A -> comparison) (l1 l2 : list A) : comparison :=
  match l1, l2 with
  | [], [] => Eq | [], _ => Lt | _, [] => Gt
  | x :: xs, y :: ys => match c x y with Eq => lex c xs ys | o => o end
  end.
Definition bytes_cmp : list N -> list N -> comparison := lex N.compare.
Definition bytes_eqb (a b : list N) : bool := match bytes_cmp a b with Eq => true | _ => false end.
Definition bytes_ltb (a b : list N) : bool := match bytes_cmp a b with Lt => true | _ => false end.

Definition bytes_ok (bs : list N) : Prop := Forall (fun b => b < 256) bs.
Definition bytes_okb (bs : list N) : bool := forallb (fun b => b <? 256) bs.

(* replace the 4 bytes at index i (replace_jentry); None where buf[i + k] would panic *)
Fixpoint patch (buf : list N) (i : nat) (w : list N) : list N :=
  match i, buf with
  | O, _ => w ++ skipn (length w) buf
  | S i', b :: buf' => b :: patch buf' i' w
  | S _, [] => []
  end.

Definition cmp_eqb (a b : comparison) : bool :=
  match a, b with Eq, Eq | Lt, Lt | Gt, Gt => true | _, _ => false end.

Fixpoint nth_opt {A} (l : list A) (n : nat) : option A :=
  match l, n with
  | [], _ => None
  | x :: _, O => Some x
  | _ :: r, S n' => nth_opt r n'
  end.

Fixpoint remove_nth {A} (l : list A) (n : nat) : list A :=
  match l, n with
  | [], _ => []
  | _ :: r, O => r
  | x :: r, S n' => x :: remove_nth r n'
  end.

(* ASCII helpers *)
Definition is_digit (b : N) : bool := (48 <=? b) && (b <=? 57).
Definition ascii_lower (b : N) : N := if (65 <=? b) && (b <=? 90) then b + 32 else b.
Definition eq_ignore_ascii_case (a b : list N) : bool := bytes_eqb (map ascii_lower a) (map ascii_lower b).
