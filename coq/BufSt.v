(* BufSt.v — the caller's output buffer as explicit state.
   The editors of src/functions.rs take `buf: &mut Vec<u8>` and return `Result<(), Error>`.  A model of type
   `... -> res (list N)` cannot say what an error return leaves in the buffer (an `Err` carries no buffer), so
   "an error appends nothing" would hold by the type of the model.  Here a function body is a computation
       stm A = list N -> list N * res A        (the buffer on entry |-> the buffer AS LEFT, and the outcome)
   built from the steps the Rust code is made of:
     spure r      a statement in which `buf` does not occur (reads of the input, the iterators, pushes into a builder
                  that is a local variable, `?` on their results): the buffer stays, the outcome is r
     swrite f     a statement that writes: builder.build_into(buf), buf.extend_from_slice(..), v.write_to_vec(buf)
     sbind m k    `m; k`: an Err / Panic outcome of m ends the function with the buffer as m left it (`?`, unwinding)
   so a model CAN express "bytes were pushed and then Err was returned" (build_array / build_object do exactly that,
   EditWalk.v); that an editor does not is a theorem about its body (EditStProofs.v), and the driver prints the buffer
   the model computed, on Ok and on Err, next to the buffer the Rust function left (harness `bufres`).
   After a Panic the buffer is not observable (the harness catches the unwind and prints `panic`); the model keeps
   whatever the steps before left.
   `view` forgets the buffer of a failed call: the `... -> res (list N)` functions the refinement theorems were stated
   for are views of the state functions. *)
From Coq Require Import List NArith.
Import ListNotations.
From JB Require Import Bytes Value Codec.

Definition stm (A : Type) : Type := list N -> list N * res A.

Definition sret {A} (a : A) : stm A := fun buf => (buf, Ok a).
Definition spure {A} (r : res A) : stm A := fun buf => (buf, r).
Definition swrite (f : list N -> list N) : stm unit := fun buf => (f buf, Ok tt).
Definition sbind {A B} (m : stm A) (k : A -> stm B) : stm B :=
  fun buf =>
    match m buf with
    | (b, Ok a) => k a b
    | (b, Err e) => (b, Err e)
    | (b, Panic) => (b, Panic)
    end.
Notation "'sdo' x <- e ; f" := (sbind e (fun x => f)) (at level 200, x pattern, e at level 100, f at level 200).

(* value.write_to_vec(buf): appends the document's encoding (Props/C17 write_to_vec_appends) *)
Definition write_value (v : value) : stm unit := swrite (fun buf => buf ++ enc v).

(* the buffer of a successful call, or the error / panic alone *)
Definition view (x : list N * res unit) : res (list N) :=
  match x with
  | (b, Ok _) => Ok b
  | (_, Err e) => Err e
  | (_, Panic) => Panic
  end.
