(* JsonGrammar.v — the documented input language of the JSON text parser, as a declarative grammar with denotations.
   Written from RFC 8259 and the text of property C02, not from the parser model: each relation below is one rule of
   the RFC grammar (section numbers given) or one named relaxation.  Every production that goes beyond the property
   text, or gives a spelling a meaning other than the standard one, carries a name starting with DEV_ and a comment;
   each was confirmed on the real crate (see the final report / Props/C02.v).
   Definitions only.  The two inclusion theorems (grammar <= parser, parser <= grammar) are in JsonGrammarProofs.v. *)
From Coq Require Import List NArith ZArith Bool.
Import ListNotations.
From JB Require Import Bytes Utf8 Num Value Decimal.
Open Scope N_scope.

(* ------------------------------------------------------------------ insignificant bytes between tokens (RFC 8259 §2 ws) *)
Inductive jws : list N -> Prop :=
| WS_none : jws []
| WS_rfc c w : c = 32 \/ c = 9 \/ c = 10 \/ c = 13 -> jws w -> jws (c :: w)      (* space, tab, LF, CR *)
| WS_form_feed w : jws w -> jws (12 :: w)                                        (* relaxation: form feed *)
| WS_escaped x w : x = 110 \/ x = 114 \/ x = 116 -> jws w -> jws (92 :: x :: w)  (* relaxation: the two characters \n \r \t *)
| WS_escaped_form_feed w : jws w -> jws (92 :: 120 :: 48 :: 67 :: w).            (* relaxation: the four characters \x0C *)

(* ------------------------------------------------------------------ strings (RFC 8259 §7) *)
(* the two-character escapes: backslash followed by one of  quote backslash / b f n r t,  and the byte each denotes *)
Definition short_escape (x : N) : option N :=
  if x =? 34 then Some 34 else if x =? 92 then Some 92 else if x =? 47 then Some 47
  else if x =? 98 then Some 8 else if x =? 102 then Some 12 else if x =? 110 then Some 10
  else if x =? 114 then Some 13 else if x =? 116 then Some 9 else None.

(* HEXDIG, either case, and the value of four of them *)
Definition hexdigit (c : N) : option N :=
  if (48 <=? c) && (c <=? 57) then Some (c - 48)
  else if (65 <=? c) && (c <=? 70) then Some (c - 55)
  else if (97 <=? c) && (c <=? 102) then Some (c - 87)
  else None.
Definition hex4 (d : list N) : option N :=
  match d with
  | [a; b; c; e] =>
      match hexdigit a, hexdigit b, hexdigit c, hexdigit e with
      | Some x, Some y, Some z, Some w => Some (((x * 16 + y) * 16 + z) * 16 + w)
      | _, _, _, _ => None
      end
  | _ => None
  end.

(* one \u escape: its text, its four hex digits, its 16-bit value.
   The bracketed form has exactly four hex digits (so \u{1F600} is NOT in the language). *)
Inductive uescape : list N -> list N -> N -> Prop :=
| U_plain d n : hex4 d = Some n -> uescape (92 :: 117 :: d) d n                       (* \uXXXX *)
| U_braced d n : hex4 d = Some n -> uescape (92 :: 117 :: 123 :: d ++ [125]) d n.     (* relaxation: \u{XXXX} *)

Definition is_high (n : N) : bool := (55296 <=? n) && (n <=? 56319).     (* D800..DBFF *)
Definition is_low (n : N) : bool := (56320 <=? n) && (n <=? 57343).      (* DC00..DFFF *)
Definition pair_code_point (hi lo : N) : N := 65536 + (hi - 55296) * 1024 + (lo - 56320).
(* how a surrogate escape that is not decoded is kept: the six characters \uXXXX with the digits as written *)
Definition kept_literally (d : list N) : list N := 92 :: 117 :: d.
Definition starts_u_escape (t : list N) : bool :=
  match t with a :: b :: _ => (a =? 92) && (b =? 117) | _ => false end.

(* jstring_body t s: t is what stands between the quotes, s the bytes of the string denoted *)
Inductive jstring_body : list N -> list N -> Prop :=
| B_end : jstring_body [] []
(* any byte except the quote and the backslash stands for itself; relaxation: also the control characters < 0x20 *)
| B_raw c t s : c <> 34 -> c <> 92 -> jstring_body t s -> jstring_body (c :: t) (c :: s)
| B_short x b t s : short_escape x = Some b -> jstring_body t s -> jstring_body (92 :: x :: t) (b :: s)
(* \uXXXX outside the surrogate range: the UTF-8 encoding of that code point *)
| B_unicode e d n t s : uescape e d n -> is_high n = false -> is_low n = false -> jstring_body t s ->
    jstring_body (e ++ t) (utf8_encode n ++ s)
(* a high surrogate escape immediately followed by a low surrogate escape: the code point of the pair *)
| B_pair e1 d1 hi e2 d2 lo t s : uescape e1 d1 hi -> is_high hi = true -> uescape e2 d2 lo -> is_low lo = true ->
    jstring_body t s -> jstring_body (e1 ++ e2 ++ t) (utf8_encode (pair_code_point hi lo) ++ s)
(* relaxation: unpaired surrogate escapes are kept as text.
   DEV (both): a bracketed escape \u{D800} is kept as \uD800, without its braces. *)
| B_lone_low e d n t s : uescape e d n -> is_low n = true -> jstring_body t s ->
    jstring_body (e ++ t) (kept_literally d ++ s)
| B_lone_high e d n t s : uescape e d n -> is_high n = true -> starts_u_escape t = false -> jstring_body t s ->
    jstring_body (e ++ t) (kept_literally d ++ s)
(* DEV: a high surrogate escape followed by a \u escape that is not a low surrogate: BOTH are kept as text, i.e. the
   second escape is not decoded even when it is an ordinary code point (the literal "\uD800\u0041" denotes the 12
   characters \uD800\u0041, not the 7 characters \uD800A), and when it is itself a high surrogate it is not paired with
   what follows (the literal "\uD800\uD800\uDC00" denotes those 18 characters, not \uD800 followed by U+10000). *)
| DEV_B_high_then_not_low e1 d1 hi e2 d2 x t s : uescape e1 d1 hi -> is_high hi = true -> uescape e2 d2 x -> is_low x = false ->
    jstring_body t s -> jstring_body (e1 ++ e2 ++ t) (kept_literally d1 ++ kept_literally d2 ++ s).

(* a string literal; the string denoted must be valid UTF-8 (RFC 8259 §8.1; the escapes above always contribute whole
   valid sequences, so this constrains the raw bytes of the literal) *)
Inductive jstring : list N -> list N -> Prop :=
| Str b s : jstring_body b s -> utf8_valid s = true -> jstring (34 :: b ++ [34]) s.

(* ------------------------------------------------------------------ numbers (RFC 8259 §6) *)
Definition digits (ds : list N) : Prop := Forall (fun d => is_digit d = true) ds.
(* int = zero / ( digit1-9 *DIGIT ) *)
Inductive jint : list N -> Prop :=
| Int_zero : jint [48]
| Int_nonzero d ds : is_digit d = true -> d <> 48 -> digits ds -> jint (d :: ds).
(* [ frac ],  frac = decimal-point 1*DIGIT;  second component: the fraction digits *)
Inductive jfrac : list N -> list N -> Prop :=
| Frac_none : jfrac [] []
| Frac_some fd : fd <> [] -> digits fd -> jfrac (46 :: fd) fd.
(* [ exp ],  exp = e [ minus / plus ] 1*DIGIT;  second component: the exponent *)
Inductive jsign : list N -> bool -> Prop :=
| Sign_none : jsign [] false | Sign_plus : jsign [43] false | Sign_minus : jsign [45] true.
Inductive jexp : list N -> Z -> Prop :=
| Exp_none : jexp [] 0%Z
| Exp_some e sg neg ed : e = 69 \/ e = 101 -> jsign sg neg -> ed <> [] -> digits ed ->
    jexp (e :: sg ++ ed) (if neg then (- digits_val ed 0)%Z else digits_val ed 0).

(* the double nearest to (-1)^neg * ids.fd * 10^e, ties to even, beyond the double range an infinity (Decimal.round_dec) *)
Definition nearest_double (neg : bool) (ids fd : list N) (e : Z) : num :=
  NFloat (round_dec neg (digits_val (ids ++ fd) 0) (e - Z.of_nat (length fd))).
(* integers (no fraction, no exponent) that fit u64, or i64 when written with a minus sign, are exact ("-0" is the
   signed integer 0); every other number is the nearest double *)
Definition number_value (neg : bool) (ids tf te fd : list N) (e : Z) : num :=
  let iv := digits_val ids 0 in
  match tf, te with
  | [], [] => if neg then (if (iv <=? two63)%Z then NInt (- iv) else nearest_double neg ids fd e)
              else (if (iv <? Z.of_N two64)%Z then NUInt (Z.to_N iv) else nearest_double neg ids fd e)
  | _, _ => nearest_double neg ids fd e
  end.
(* number = [ minus ] int [ frac ] [ exp ] *)
Inductive jnumber : list N -> num -> Prop :=
| Number neg ids tf fd te e : jint ids -> jfrac tf fd -> jexp te e ->
    jnumber ((if neg : bool then [45] else []) ++ ids ++ tf ++ te) (number_value neg ids tf te fd e).

(* ------------------------------------------------------------------ values (RFC 8259 §3, §4, §5) *)
(* a member name with the insignificant bytes around it (the part of a member before the colon) *)
Inductive jkey : list N -> list N -> Prop :=
| Key w1 t k w2 : jws w1 -> jstring t k -> jws w2 -> jkey (w1 ++ t ++ w2) k.

Inductive jvalue : list N -> value -> Prop :=
| V_null : jvalue [110; 117; 108; 108] VNull
| V_true : jvalue [116; 114; 117; 101] (VBool true)
| V_false : jvalue [102; 97; 108; 115; 101] (VBool false)
| V_number t n : jnumber t n -> jvalue t (VNum n)
| V_string t s : jstring t s -> jvalue t (VStr s)
| V_empty_array w : jws w -> jvalue (91 :: w ++ [93]) (VArr [])
| V_array t l : jelements t l -> jvalue (91 :: t ++ [93]) (VArr l)
| V_empty_object w : jws w -> jvalue (123 :: w ++ [125]) (VObj [])
(* the members are inserted in order into a map: the last of several members with the same name wins *)
| V_object t ms : jmembers t ms -> jvalue (123 :: t ++ [125]) (VObj (assoc_of_list ms))
(* ws value ws *)
with jelement : list N -> value -> Prop :=
| Elem w1 t v w2 : jws w1 -> jvalue t v -> jws w2 -> jelement (w1 ++ t ++ w2) v
(* value *( value-separator value ), at least one *)
with jelements : list N -> list value -> Prop :=
| Es_one t v : jelement t v -> jelements t [v]
| Es_cons t v ts l : jelement t v -> jelements ts l -> jelements (t ++ 44 :: ts) (v :: l)
(* member *( value-separator member ), at least one;  member = string name-separator value *)
with jmembers : list N -> list (list N * value) -> Prop :=
| Ms_one tk k tv v : jkey tk k -> jelement tv v -> jmembers (tk ++ 58 :: tv) [(k, v)]
| Ms_cons tk k tv v ts ms : jkey tk k -> jelement tv v -> jmembers ts ms -> jmembers (tk ++ 58 :: tv ++ 44 :: ts) ((k, v) :: ms).

(* what the map of V_object holds for a name: the value of the LAST member with that name
   (JsonGrammarProofs.object_last_duplicate_wins: assoc_lookup k (assoc_of_list ms) = last_binding k ms) *)
Definition last_binding (k : list N) (ms : list (list N * value)) : option value :=
  fold_left (fun r kv => if bytes_eqb k (fst kv) then Some (snd kv) else r) ms None.

(* JSON-text = ws value ws; nesting is unbounded *)
Definition jtext : list N -> value -> Prop := jelement.

(* ------------------------------------------------------------------ RFC 8259 alone (no relaxation), for reference *)
(* The same grammar with every relaxation removed: ws is space / tab / LF / CR; a string has no raw control character,
   only \uXXXX escapes (not bracketed), and surrogate escapes only as a high+low pair; the text between the quotes is
   UTF-8 (RFC 8259 section 8.1).  Numbers are jnumber as they stand (the RFC puts no bound on range or precision).
   JsonGrammarProofs.rfc_text_jtext: rfc_text t v -> jtext t v, so every RFC 8259 document is accepted with its meaning.
   (The RFC's ABNF also lets an unpaired surrogate escape through, with "unpredictable" meaning: that part is the
   relaxation B_lone_low / B_lone_high / DEV_B_high_then_not_low above, not repeated here.) *)
Inductive rfc_ws : list N -> Prop :=
| RWS_none : rfc_ws []
| RWS_char c w : c = 32 \/ c = 9 \/ c = 10 \/ c = 13 -> rfc_ws w -> rfc_ws (c :: w).
Inductive rfc_string_body : list N -> list N -> Prop :=
| RB_end : rfc_string_body [] []
| RB_raw c t s : 32 <= c -> c <> 34 -> c <> 92 -> rfc_string_body t s -> rfc_string_body (c :: t) (c :: s)
| RB_short x b t s : short_escape x = Some b -> rfc_string_body t s -> rfc_string_body (92 :: x :: t) (b :: s)
| RB_unicode d n t s : hex4 d = Some n -> is_high n = false -> is_low n = false -> rfc_string_body t s ->
    rfc_string_body (92 :: 117 :: d ++ t) (utf8_encode n ++ s)
| RB_pair d1 hi d2 lo t s : hex4 d1 = Some hi -> is_high hi = true -> hex4 d2 = Some lo -> is_low lo = true -> rfc_string_body t s ->
    rfc_string_body (92 :: 117 :: d1 ++ 92 :: 117 :: d2 ++ t) (utf8_encode (pair_code_point hi lo) ++ s).
Inductive rfc_string : list N -> list N -> Prop :=
| RStr b s : rfc_string_body b s -> utf8_valid b = true -> rfc_string (34 :: b ++ [34]) s.
Inductive rfc_key : list N -> list N -> Prop :=
| RKey w1 t k w2 : rfc_ws w1 -> rfc_string t k -> rfc_ws w2 -> rfc_key (w1 ++ t ++ w2) k.
Inductive rfc_value : list N -> value -> Prop :=
| RV_null : rfc_value [110; 117; 108; 108] VNull
| RV_true : rfc_value [116; 114; 117; 101] (VBool true)
| RV_false : rfc_value [102; 97; 108; 115; 101] (VBool false)
| RV_number t n : jnumber t n -> rfc_value t (VNum n)
| RV_string t s : rfc_string t s -> rfc_value t (VStr s)
| RV_empty_array w : rfc_ws w -> rfc_value (91 :: w ++ [93]) (VArr [])
| RV_array t l : rfc_elements t l -> rfc_value (91 :: t ++ [93]) (VArr l)
| RV_empty_object w : rfc_ws w -> rfc_value (123 :: w ++ [125]) (VObj [])
| RV_object t ms : rfc_members t ms -> rfc_value (123 :: t ++ [125]) (VObj (assoc_of_list ms))
with rfc_element : list N -> value -> Prop :=
| RElem w1 t v w2 : rfc_ws w1 -> rfc_value t v -> rfc_ws w2 -> rfc_element (w1 ++ t ++ w2) v
with rfc_elements : list N -> list value -> Prop :=
| REs_one t v : rfc_element t v -> rfc_elements t [v]
| REs_cons t v ts l : rfc_element t v -> rfc_elements ts l -> rfc_elements (t ++ 44 :: ts) (v :: l)
with rfc_members : list N -> list (list N * value) -> Prop :=
| RMs_one tk k tv v : rfc_key tk k -> rfc_element tv v -> rfc_members (tk ++ 58 :: tv) [(k, v)]
| RMs_cons tk k tv v ts ms : rfc_key tk k -> rfc_element tv v -> rfc_members ts ms -> rfc_members (tk ++ 58 :: tv ++ 44 :: ts) ((k, v) :: ms).
Definition rfc_text : list N -> value -> Prop := rfc_element.
