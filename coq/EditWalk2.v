(* EditWalk2.v — offset-faithful models of the binary branches of the editors of src/functions.rs that work on
   objects and on nested containers: object_insert_jsonb, object_delete_jsonb, object_pick_jsonb, strip_nulls_jsonb /
   strip_nulls_array / strip_nulls_object, delete_by_keypath_jsonb / delete_jsonb_array_by_keypath /
   delete_jsonb_object_by_keypath.  Each reads the header word, drives the iterators of iterator.rs (Iter.v) over the
   same buffer, pushes raw (entry, payload slice) pairs — and, for strip_nulls / delete_by_keypath, nested builders —
   into an ArrayBuilder / ObjectBuilder (Builder.v) and calls build_into(buf).
     read_u32(..)?             -> Err (the specific error where the code names one)
     &value[a..b], unwrap()    -> Panic
     unreachable!()            -> Panic
   The two mutually recursive pairs (strip_nulls_array/object, delete_jsonb_array/object_by_keypath) share one block of
   code: "the entry is a container: read its header and recurse on the item slice as its own buffer".  That block is
   the fuelled function here (strip_item, del_item); the loop bodies take it as a parameter.  Fuel: for strip_nulls the
   length of the buffer (every nested item is a strictly shorter sub-slice), for delete_by_keypath the length of the key
   path (every nested call has popped one element).  Executable definitions only. *)
From Coq Require Import List NArith ZArith Bool.
Import ListNotations.
From JB Require Import Constants Bytes Utf8 Num Value Codec TreeOps JsonText Dispatch Walk Iter Builder BufSt.
Open Scope N_scope.

(* ObjectBuilder: BTreeMap<&str, Entry> *)
Notation obuilder := (list (list N * entry)) (only parsing).

(* ================================================================ ObjectEntryIterator driven by hand *)
(* object_insert calls obj_iter.next() itself.  State: not started (keys = None; only `length` matters), or the
   remaining key entries with the three offsets.  next(): fill_keys on the first call (a failed read leaves
   keys = None and the unwrap panics); pop a key entry, slice the key (Panic), read the value entry (`.ok()?`:
   None is returned, the key stays popped and key_offset advanced), slice the value (Panic). *)
Inductive eit := ItNew (len : N) | ItRun (kws : list N) (koff joff voff : N).

Definition ent_start (bs : list N) (it : eit) : res (list N * N * N * N) :=
  match it with
  | ItNew len =>
      match rd_words (S (length bs)) bs 0 len 4 with
      | None => Panic
      | Some kws => Ok (kws, 4 + len * 8, 4 + 4 * len, 4 + len * 8 + sum_je_len kws)
      end
  | ItRun kws koff joff voff => Ok (kws, koff, joff, voff)
  end.

Definition ent_next (bs : list N) (it : eit) : res (option (list N * je * list N) * eit) :=
  do st <- ent_start bs it;
  let '(kws, koff, joff, voff) := st in
  match kws with
  | [] => Ok (None, ItRun [] koff joff voff)
  | kw :: r =>
      match slice bs koff (je_len kw) with
      | None => Panic
      | Some key =>
          match read_u32 bs joff with
          | None => Ok (None, ItRun r (koff + je_len kw) joff voff)
          | Some vw =>
              match slice bs voff (je_len vw) with
              | None => Panic
              | Some val => Ok (Some (key, decode_je vw, val), ItRun r (koff + je_len kw) (joff + 4) (voff + je_len vw))
              end
          end
      end
  end.

(* `for (key, jentry, item) in obj_iter` on an iterator in any state: next() until it answers None *)
Definition ent_rest {St R} (bs : list N) (it : eit) (step : St -> list N -> je -> list N -> res (St + R))
  (fin : St -> res R) (s : St) : res R :=
  do st <- ent_start bs it;
  let '(kws, koff, joff, voff) := st in ent_loop bs step fin kws koff joff voff s.

(* for _ in 0..idx { if let Some((key, jentry, item)) = obj_iter.next() { builder.push_raw(key, jentry, item) } } *)
Fixpoint push_n (bs : list N) (n : nat) (it : eit) (b : obuilder) : res (obuilder * eit) :=
  match n with
  | O => Ok (b, it)
  | S n' =>
      do r <- ent_next bs it;
      let '(o, it') := r in
      match o with
      | Some (key, j, item) => push_n bs n' it' (obj_push b key (ERaw j item))
      | None => push_n bs n' it' b
      end
  end.

(* ================================================================ object_insert_jsonb *)
(* the position loop over iteate_object_keys(..).enumerate(): state (i, idx); result (idx, duplicate_key) *)
Definition ins_key_step (new_key : list N) (upd : bool) (st : nat * nat) (k : list N)
  : res ((nat * nat) + (nat * bool)) :=
  let '(i, idx) := st in
  if bytes_eqb new_key k then
    if upd then Ok (inr (i, true)) else Err EDupKey
  else if bytes_ltb k new_key then Ok (inl (S i, S i))
  else Ok (inr (idx, false)).

(* the entry pushed for new_value: a container document is its own payload; a scalar document is
   [scalar header][entry word][payload] *)
Definition new_value_entry (new_value : list N) : res entry :=
  match read_u32 new_value 0 with
  | None => Err EOther
  | Some nh =>
      if (hdr_type nh =? ARRAY_CONTAINER_TAG) || (hdr_type nh =? OBJECT_CONTAINER_TAG) then
        Ok (ERaw (CONTAINER_TAG, u32 (lenN new_value)) new_value)       (* make_container_jentry(new_value.len()) *)
      else
        match read_u32 new_value 4 with
        | None => Err EOther
        | Some encoded =>
            match slice_from new_value 8 with
            | None => Panic                                               (* &new_value[8..] *)
            | Some d => Ok (ERaw (decode_je encoded) d)
            end
        end
  end.

(* the caller's buffer is state (BufSt.v): every step up to the last is `spure` (it does not mention `buf`; the
   duplicate-key error, the failed reads, the panicking slices all come before anything is written), the last one is
   builder.build_into(buf) *)
Definition object_insert_b_st (value new_key new_value : list N) (upd : bool) : stm unit :=
  sdo header <- spure (of_option EOther (read_u32 value 0));
  if negb (hdr_type header =? OBJECT_CONTAINER_TAG) then spure (Err EInvalidObject) else
  sdo pos <- spure (iterate_object_keys value header (ins_key_step new_key upd) (fun st => Ok (snd st, false)) (O, O));
  let '(idx, dup) := pos in
  sdo r1 <- spure (push_n value idx (ItNew (hdr_len header)) []);
  let '(b1, it1) := r1 in
  sdo e <- spure (new_value_entry new_value);
  let b2 := obj_push b1 new_key e in
  sdo it2 <- spure (if dup then do r <- ent_next value it1; Ok (snd r) else Ok it1);
  sdo b3 <- spure (ent_rest value it2 (fun b key j item => Ok (inl (obj_push b key (ERaw j item)))) (fun b => Ok b) b2);
  swrite (fun buf => build_obj_into buf b3).
Definition object_insert_b (value new_key new_value : list N) (upd : bool) (buf : list N) : res (list N) :=
  view (object_insert_b_st value new_key new_value upd buf).

(* the public function: each text argument is parsed and re-encoded (into a local Vec), then the binary walker runs *)
Definition as_jsonb (bs : list N) : res (list N) :=
  if is_jsonb bs then Ok bs else do v <- parse_value bs; Ok (to_vec v).
Definition object_insert_st (bs key nv : list N) (upd : bool) : stm unit :=
  sdo vb <- spure (as_jsonb bs);
  sdo nb <- spure (as_jsonb nv);
  object_insert_b_st vb key nb upd.
Definition object_insert_w (bs key nv : list N) (upd : bool) (buf : list N) : res (list N) :=
  view (object_insert_st bs key nv upd buf).

(* ================================================================ object_delete_jsonb / object_pick_jsonb *)
(* keys: &BTreeSet<&str>; only `contains` is used *)
Definition object_filter_b_st (keep : list N -> bool) (value : list N) : stm unit :=
  sdo header <- spure (of_option EOther (read_u32 value 0));
  if negb (hdr_type header =? OBJECT_CONTAINER_TAG) then spure (Err EInvalidObject) else
  sdo b <- spure (iterate_object_entries value header
                    (fun b key j item => if keep key then Ok (inl (obj_push b key (ERaw j item))) else Ok (inl b))
                    (fun b => Ok b) []);
  swrite (fun buf => build_obj_into buf b).
Definition object_filter_b (keep : list N -> bool) (value buf : list N) : res (list N) :=
  view (object_filter_b_st keep value buf).
Definition object_delete_b_st (value : list N) (ks : list (list N)) : stm unit :=
  object_filter_b_st (fun k => negb (mem_key k ks)) value.
Definition object_pick_b_st (value : list N) (ks : list (list N)) : stm unit :=
  object_filter_b_st (fun k => mem_key k ks) value.
Definition object_delete_b (value : list N) (ks : list (list N)) (buf : list N) : res (list N) :=
  view (object_delete_b_st value ks buf).
Definition object_pick_b (value : list N) (ks : list (list N)) (buf : list N) : res (list N) :=
  view (object_pick_b_st value ks buf).
Definition object_delete_st (bs : list N) (ks : list (list N)) : stm unit :=
  sdo vb <- spure (as_jsonb bs); object_delete_b_st vb ks.
Definition object_pick_st (bs : list N) (ks : list (list N)) : stm unit :=
  sdo vb <- spure (as_jsonb bs); object_pick_b_st vb ks.
Definition object_delete_w (bs : list N) (ks : list (list N)) (buf : list N) : res (list N) :=
  view (object_delete_st bs ks buf).
Definition object_pick_w (bs : list N) (ks : list (list N)) (buf : list N) : res (list N) :=
  view (object_pick_st bs ks buf).

(* ================================================================ strip_nulls_jsonb *)
Section Strip.
  (* "CONTAINER_TAG => { let item_header = read_u32(item, 0)?; match .. { push_object(strip_nulls_object(..)?),
     push_array(strip_nulls_array(..)?), _ => unreachable!() } }": the builder entry for a nested container *)
  Variable rec : list N -> res entry.
  (* strip_nulls_array(header, value) -> ArrayBuilder *)
  Definition strip_arr (hdr : N) (value : list N) : res (list entry) :=
    iterate_array value hdr
      (fun es j item =>
         if fst j =? CONTAINER_TAG then do e <- rec item; Ok (inl (es ++ [e]))
         else Ok (inl (es ++ [ERaw j item])))
      (fun es => Ok es) [].
  (* strip_nulls_object(header, value) -> ObjectBuilder *)
  Definition strip_obj (hdr : N) (value : list N) : res obuilder :=
    iterate_object_entries value hdr
      (fun b key j item =>
         if fst j =? CONTAINER_TAG then do e <- rec item; Ok (inl (obj_push b key e))
         else if fst j =? NULL_TAG then Ok (inl b)
         else Ok (inl (obj_push b key (ERaw j item))))
      (fun b => Ok b) [].
End Strip.

Fixpoint strip_item (fuel : nat) (item : list N) : res entry :=
  match fuel with O => Err EFuel | S f =>
  match read_u32 item 0 with
  | None => Err EOther
  | Some ih =>
      if hdr_type ih =? OBJECT_CONTAINER_TAG then do b <- strip_obj (strip_item f) ih item; Ok (EObj b)
      else if hdr_type ih =? ARRAY_CONTAINER_TAG then do es <- strip_arr (strip_item f) ih item; Ok (EArr es)
      else Panic
  end end.

(* strip_nulls_array / strip_nulls_object return builders (no `buf` in their signature); the top level writes once *)
Definition strip_nulls_b_st (value : list N) : stm unit :=
  sdo header <- spure (of_option EOther (read_u32 value 0));
  if hdr_type header =? OBJECT_CONTAINER_TAG then
    sdo b <- spure (strip_obj (strip_item (length value)) header value); swrite (fun buf => build_obj_into buf b)
  else if hdr_type header =? ARRAY_CONTAINER_TAG then
    sdo es <- spure (strip_arr (strip_item (length value)) header value); swrite (fun buf => build_arr_into buf es)
  else swrite (fun buf => buf ++ value).                                  (* buf.extend_from_slice(value) *)
Definition strip_nulls_b (value buf : list N) : res (list N) := view (strip_nulls_b_st value buf).
(* text: parse_value(value)?, strip on the tree, json.write_to_vec(buf) *)
Definition strip_nulls_st (bs : list N) : stm unit :=
  if is_jsonb bs then strip_nulls_b_st bs
  else sdo v <- spure (parse_value bs); write_value (strip_nulls_t v).
Definition strip_nulls_w (bs buf : list N) : res (list N) := view (strip_nulls_st bs buf).

(* ================================================================ delete_by_keypath_jsonb *)
Definition kp_nil (ks : list keypath) : bool := match ks with [] => true | _ => false end.

Section Del.
  (* the nested block: "CONTAINER_TAG => { item_header = read_u32(item, 0)?; delete_jsonb_{array,object}_by_keypath(item,
     item_header, keypath)? }" -> Some (the nested builder as an entry, the key path left in the VecDeque) | None *)
  Variable rec : list N -> list keypath -> res (option (entry * list keypath)).

  (* delete_jsonb_array_by_keypath: Some (builder, keypath afterwards) | None.  `keypath` is one VecDeque shared by
     all levels (pop_front), so it is threaded through the loop state (i, builder, keypath). *)
  Definition del_arr_step (idx : N) (st : N * list entry * list keypath) (j : je) (item : list N)
    : res ((N * list entry * list keypath) + option (list entry * list keypath)) :=
    let '(n, es, kp) := st in
    if negb (n =? idx) then Ok (inl (n + 1, es ++ [ERaw j item], kp))
    else if negb (kp_nil kp) then
      if fst j =? CONTAINER_TAG then
        do o <- rec item kp;
        match o with
        | Some (e, kp') => Ok (inl (n + 1, es ++ [e], kp'))
        | None => Ok (inr None)
        end
      else Ok (inr None)
    else Ok (inl (n + 1, es, kp)).
  Definition del_arr_fin (st : N * list entry * list keypath) : res (option (list entry * list keypath)) :=
    Ok (Some (snd (fst st), snd st)).
  Definition del_arr (value : list N) (hdr : N) (ks : list keypath) : res (option (list entry * list keypath)) :=
    let len := Z.of_N (hdr_len hdr) in           (* as i32: < 2^29 *)
    match ks with
    | KIndex i :: r =>
        let idx := DKP_B_RESOLVE i len in      (* generated from delete_jsonb_array_by_keypath; len >= 0 > i: no overflow *)
        if DKP_B_SKIP idx len then Ok None else
        iterate_array value hdr (del_arr_step (Z.to_N idx)) del_arr_fin (0, [], r)
    | _ => Ok None
    end.

  Definition del_obj_step (name : list N) (st : obuilder * list keypath) (key : list N) (j : je) (item : list N)
    : res ((obuilder * list keypath) + option (obuilder * list keypath)) :=
    let '(b, kp) := st in
    if negb (bytes_eqb key name) then Ok (inl (obj_push b key (ERaw j item), kp))
    else if negb (kp_nil kp) then
      if fst j =? CONTAINER_TAG then
        do o <- rec item kp;
        match o with
        | Some (e, kp') => Ok (inl (obj_push b key e, kp'))
        | None => Ok (inr None)
        end
      else Ok (inr None)
    else Ok (inl (b, kp)).
  Definition del_obj (value : list N) (hdr : N) (ks : list keypath) : res (option (obuilder * list keypath)) :=
    match ks with
    | KName name :: r | KQuoted name :: r =>
        iterate_object_entries value hdr (del_obj_step name) (fun st => Ok (Some st)) ([], r)
    | _ => Ok None
    end.
End Del.

Fixpoint del_item (fuel : nat) (item : list N) (ks : list keypath) : res (option (entry * list keypath)) :=
  match fuel with O => Err EFuel | S f =>
  match read_u32 item 0 with
  | None => Err EOther
  | Some ih =>
      if hdr_type ih =? ARRAY_CONTAINER_TAG then
        do o <- del_arr (del_item f) item ih ks;
        Ok (match o with Some (es, ks') => Some (EArr es, ks') | None => None end)
      else if hdr_type ih =? OBJECT_CONTAINER_TAG then
        do o <- del_obj (del_item f) item ih ks;
        Ok (match o with Some (b, ks') => Some (EObj b, ks') | None => None end)
      else Panic
  end end.

(* delete_jsonb_array_by_keypath / delete_jsonb_object_by_keypath return Option<builder> (no `buf`); the top level
   writes once: build_into(buf) or buf.extend_from_slice(value) *)
Definition delete_by_keypath_b_st (value : list N) (ks : list keypath) : stm unit :=
  sdo header <- spure (of_option EOther (read_u32 value 0));
  if hdr_type header =? ARRAY_CONTAINER_TAG then
    sdo o <- spure (del_arr (del_item (length ks)) value header ks);
    match o with
    | Some (es, _) => swrite (fun buf => build_arr_into buf es)
    | None => swrite (fun buf => buf ++ value)
    end
  else if hdr_type header =? OBJECT_CONTAINER_TAG then
    sdo o <- spure (del_obj (del_item (length ks)) value header ks);
    match o with
    | Some (b, _) => swrite (fun buf => build_obj_into buf b)
    | None => swrite (fun buf => buf ++ value)
    end
  else spure (Err EInvalidJsonType).
Definition delete_by_keypath_b (value : list N) (ks : list keypath) (buf : list N) : res (list N) :=
  view (delete_by_keypath_b_st value ks buf).
(* text: parse_value(value)?, delete on the tree (`return Err(InvalidJsonType)` for a scalar), value.write_to_vec(buf) *)
Definition delete_by_keypath_st (bs : list N) (ks : list keypath) : stm unit :=
  if is_jsonb bs then delete_by_keypath_b_st bs ks
  else
    sdo v <- spure (parse_value bs);
    sdo y <- spure (delete_by_keypath_t v ks);
    write_value y.
Definition delete_by_keypath_w (bs : list N) (ks : list keypath) (buf : list N) : res (list N) :=
  view (delete_by_keypath_st bs ks buf).
