(* KeysWalkProofs.v — the byte walkers of KeysWalk.v (exists_all_keys / exists_any_keys / exists_jsonb_key on JSONB bytes)
   return, on the encoding of a well-formed value, exactly the tree answers of TreeOps.v (has_key, exists_all_keys_t,
   exists_any_keys_t) for every list of keys: the key iterator visits the keys of the object in order, the array
   iterator its elements with their own entries and payload slices; no read fails, no slice panics. *)
From Coq Require Import List NArith ZArith Bool Lia.
Import ListNotations.
From JB Require Import Constants Bytes Utf8 Num Value Codec Order CodecProofs RoundtripProofs TreeOps JsonText
  Dispatch DispatchProofs Walk WalkProofs Iter IterProofs KeysWalk.
Open Scope N_scope.
Set Default Timeout 120.

Arguments N.lor : simpl never.
Arguments N.land : simpl never.
Arguments N.add : simpl never.
Arguments N.mul : simpl never.
Arguments N.ltb : simpl never.
Arguments N.leb : simpl never.
Arguments N.eqb : simpl never.
Arguments be32 : simpl never.
Arguments read_u32 : simpl never.
Arguments slice : simpl never.

(* ---- the two loops on the list level ---- *)
Lemma keys_fold (key : list N) (o : list (list N * value)) :
  fold_exit (fun (_ : unit) (kv : list N * value) => if bytes_eqb key (fst kv) then Ok (inr true) else Ok (inl tt))
            (fun _ => Ok false) o tt
  = Ok (match assoc_lookup key o with Some _ => true | None => false end).
Proof.
  induction o as [|[k x] r IH]; cbn [fold_exit assoc_lookup fst]; [reflexivity|].
  destruct (bytes_eqb key k); cbn [bind]; [reflexivity|exact IH].
Qed.

Lemma strings_fold (key : list N) (l : list value) :
  fold_exit (fun (_ : unit) x =>
               if negb (fst (ent x) =? STRING_TAG) then Ok (inl tt)
               else if bytes_eqb (payload x) key then Ok (inr true) else Ok (inl tt))
            (fun _ => Ok false) l tt
  = Ok (existsb (fun x => match x with VStr s => bytes_eqb s key | _ => false end) l).
Proof.
  induction l as [|x r IH]; cbn [fold_exit existsb]; [reflexivity|].
  unfold ent at 1. cbn [fst]. destruct (tag_tests x) as (_ & _ & _ & T4 & _ & _). rewrite T4.
  destruct x as [|b|s|n|l'|o']; cbn [negb bind orb]; try exact IH.
  change (payload (VStr s)) with s. destruct (bytes_eqb s key); cbn [bind orb]; [reflexivity|exact IH].
Qed.

(* ---- headers ---- *)
Lemma hdr_arr l : lenN l < 536870912 -> header_default (payload (VArr l)) = arr_hdr l.
Proof.
  intros Hn. unfold header_default. pose proof (read_hdr_arr [] l [] Hn) as R. cbn [app] in R. rewrite app_nil_r in R.
  change (lenN (@nil N)) with 0 in R. rewrite R. reflexivity.
Qed.
Lemma hdr_obj o : lenN o < 536870912 -> header_default (payload (VObj o)) = obj_hdr o.
Proof.
  intros Hn. unfold header_default. pose proof (read_hdr_obj [] o [] Hn) as R. cbn [app] in R. rewrite app_nil_r in R.
  change (lenN (@nil N)) with 0 in R. rewrite R. reflexivity.
Qed.
Lemma hdr_scalar w p : header_default (be32 SCALAR_CONTAINER_TAG ++ be32 w ++ p) = SCALAR_CONTAINER_TAG.
Proof.
  unfold header_default.
  pose proof (read_u32_mid [] SCALAR_CONTAINER_TAG (be32 w ++ p)) as R. cbn [app] in R.
  change (lenN (@nil N)) with 0 in R. rewrite R by (vm_compute; reflexivity). reflexivity.
Qed.

(* ---- exists_jsonb_key on an encoding, with the header exists_*_keys read ---- *)
Theorem exists_jsonb_key_w_enc v key : wfb v = true ->
  exists_jsonb_key_w (enc v) (header_default (enc v)) key = Ok (has_key v key).
Proof.
  intros Hwf.
  assert (Sc : is_container v = false -> exists_jsonb_key_w (enc v) (header_default (enc v)) key = Ok false).
  { intros Hc.
    assert (E : enc v = be32 SCALAR_CONTAINER_TAG ++ be32 (word v) ++ payload v) by (destruct v; try discriminate Hc; reflexivity).
    rewrite E, hdr_scalar. unfold exists_jsonb_key_w.
    change (hdr_type SCALAR_CONTAINER_TAG =? OBJECT_CONTAINER_TAG) with false.
    change (hdr_type SCALAR_CONTAINER_TAG =? ARRAY_CONTAINER_TAG) with false. reflexivity. }
  destruct v as [|b|s|n|l|o]; try (apply Sc; reflexivity).
  - change (enc (VArr l)) with (payload (VArr l)).
    destruct (wf_arr l Hwf) as [Hall Hn]. rewrite (hdr_arr l Hn). unfold exists_jsonb_key_w.
    destruct (arr_hdr_facts l Hn) as (_ & HT & _). rewrite HT.
    change (ARRAY_CONTAINER_TAG =? OBJECT_CONTAINER_TAG) with false.
    change (ARRAY_CONTAINER_TAG =? ARRAY_CONTAINER_TAG) with true. cbv iota.
    assert (Hl : Forall (fun v => wf_size v = true) l).
    { eapply Forall_impl; [|exact Hall]. intros x Hx. apply wfb_size. exact Hx. }
    pose proof (iterate_array_arr
                  (fun (_ : unit) (j : je) (p : list N) =>
                     if negb (fst j =? STRING_TAG) then Ok (inl tt)
                     else if bytes_eqb p key then Ok (inr true) else Ok (inl tt))
                  (fun _ => Ok false) l [] tt Hl Hn) as E.
    rewrite app_nil_r in E. rewrite E. clear E.
    exact (strings_fold key l).
  - change (enc (VObj o)) with (payload (VObj o)).
    destruct (wf_obj o Hwf) as (_ & Hn & _). destruct (obj_ok_of_wf o Hwf) as [Ho _].
    rewrite (hdr_obj o Hn). unfold exists_jsonb_key_w.
    destruct (obj_hdr_facts o Hn) as (_ & HT & _). rewrite HT.
    change (OBJECT_CONTAINER_TAG =? OBJECT_CONTAINER_TAG) with true. cbv iota.
    pose proof (iterate_object_keys_obj
                  (fun (_ : unit) (k : list N) => if bytes_eqb key k then Ok (inr true) else Ok (inl tt))
                  (fun _ => Ok false) o [] tt Ho Hn) as E.
    rewrite app_nil_r in E. rewrite E. clear E.
    exact (keys_fold key o).
Qed.

(* ---- the loops over the keys ---- *)
Lemma all_keys_loop_enc v ks : wfb v = true ->
  all_keys_loop (enc v) (header_default (enc v)) ks = Ok (exists_all_keys_t v ks).
Proof.
  intros Hwf. unfold exists_all_keys_t. induction ks as [|k r IH]; cbn [all_keys_loop forallb]; [reflexivity|].
  destruct (utf8_valid k); cbn [andb]; [|reflexivity].
  rewrite (exists_jsonb_key_w_enc v k Hwf). cbn [bind].
  destruct (has_key v k); cbn [andb]; [exact IH|reflexivity].
Qed.
Lemma any_keys_loop_enc v ks : wfb v = true ->
  any_keys_loop (enc v) (header_default (enc v)) ks = Ok (exists_any_keys_t v ks).
Proof.
  intros Hwf. unfold exists_any_keys_t. induction ks as [|k r IH]; cbn [any_keys_loop existsb]; [reflexivity|].
  destruct (utf8_valid k); cbn [andb orb]; [|exact IH].
  rewrite (exists_jsonb_key_w_enc v k Hwf). cbn [bind].
  destruct (has_key v k); cbn [orb]; [reflexivity|exact IH].
Qed.

(* ---- the public functions on encodings ---- *)
Theorem exists_all_keys_w_enc v ks : wfb v = true -> top_ok v -> exists_all_keys_w (enc v) ks = Ok (exists_all_keys_t v ks).
Proof. intros Hwf Ht. unfold exists_all_keys_w. rewrite (is_jsonb_enc v Hwf Ht). apply all_keys_loop_enc. exact Hwf. Qed.
Theorem exists_any_keys_w_enc v ks : wfb v = true -> top_ok v -> exists_any_keys_w (enc v) ks = Ok (exists_any_keys_t v ks).
Proof. intros Hwf Ht. unfold exists_any_keys_w. rewrite (is_jsonb_enc v Hwf Ht). apply any_keys_loop_enc. exact Hwf. Qed.

(* key existence does not see the decoder's representation change, so the walkers agree with the view-level models *)
Lemma has_key_normalise v k : has_key (normalise v) k = has_key v k.
Proof.
  destruct v as [|b|s|n|l|o]; try reflexivity; cbn [normalise has_key].
  - induction l as [|x r IH]; cbn [map existsb]; [reflexivity|]. rewrite IH. f_equal. destruct x; reflexivity.
  - induction o as [|[k' x] r IH]; cbn [map assoc_lookup fst snd]; [reflexivity|].
    destruct (bytes_eqb k k'); [reflexivity|exact IH].
Qed.
Corollary exists_all_keys_w_agrees_m v ks : wfb v = true -> top_ok v -> exists_all_keys_w (enc v) ks = exists_all_keys_m (enc v) ks.
Proof.
  intros Hwf Ht. rewrite (exists_all_keys_w_enc v ks Hwf Ht), (exists_all_keys_on_enc v Hwf Ht). f_equal.
  unfold exists_all_keys_t. induction ks as [|k r IH]; cbn [forallb]; [reflexivity|]. rewrite IH, has_key_normalise. reflexivity.
Qed.
Corollary exists_any_keys_w_agrees_m v ks : wfb v = true -> top_ok v -> exists_any_keys_w (enc v) ks = exists_any_keys_m (enc v) ks.
Proof.
  intros Hwf Ht. rewrite (exists_any_keys_w_enc v ks Hwf Ht), (exists_any_keys_on_enc v Hwf Ht). f_equal.
  unfold exists_any_keys_t. induction ks as [|k r IH]; cbn [existsb]; [reflexivity|]. rewrite IH, has_key_normalise. reflexivity.
Qed.
