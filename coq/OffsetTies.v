(* OffsetTies.v — the offset formulas the translator reads from the byte walkers of functions.rs / selector.rs (gen/Constants.v,
   table ANCHORS of tools/translate_consts.py, group G2) describe ONE layout:

     header word | n entry words (array)  or  n key words, n value words (object) | key bytes | payloads

   Every reader (get_jentry_by_index / get_jentry_by_name / object_keys / object_each / array_values / compare / comparable key /
   to_string / the JSONPath selector / the iterators) and the writer (builder.rs) computes where the entry words, the keys and the
   payloads start by its own expression.  Here: those expressions are the same functions of (offset, count).  A drift of one
   site (a changed constant in one function) breaks the lemma that names it, besides the refinement proof of that walker.

   Also here: the strides of the first loops that the models run with Walk.rd_words (which advances by 4), and the loop bounds
   that the models realise by a list recursion.  *)
From Coq Require Import NArith Lia.
From JB Require Import Constants.
Open Scope N_scope.
Set Default Timeout 30.

(* ---- where the payloads of an array start: header + n entry words ---- *)
Lemma arr_payload_start_agree off n :
  JBI_VOFF off n = off + ITER_ARR_VOFF n /\
  off + AVS_VOFF n = JBI_VOFF off n /\
  CTS_ARR_VOFF off n = JBI_VOFF off n /\
  SAV_OFF off n = JBI_VOFF off n /\
  SBI_OFF off n = JBI_VOFF off n /\
  off + CMP_ARR_LSKIP + CMA_LVOFF n = JBI_VOFF off n /\
  off + CMP_ARR_RSKIP + CMA_RVOFF n = JBI_VOFF off n /\
  off + CPR_ARR_LSKIP + CMA_LVOFF n = JBI_VOFF off n /\
  off + CPR_ARR_RSKIP + CMA_RVOFF n = JBI_VOFF off n /\
  off + CVC_ARR_SKIP + CVA_VOFF n = JBI_VOFF off n /\
  off + BLD_ARR_LEN0 n = JBI_VOFF off n.
Proof.
  unfold JBI_VOFF, ITER_ARR_VOFF, AVS_VOFF, CTS_ARR_VOFF, SAV_OFF, SBI_OFF, CMP_ARR_LSKIP, CMP_ARR_RSKIP, CPR_ARR_LSKIP, CPR_ARR_RSKIP,
    CMA_LVOFF, CMA_RVOFF, CVC_ARR_SKIP, CVA_VOFF, BLD_ARR_LEN0. repeat split; lia.
Qed.
(* ---- where the entry words start: just after the header ---- *)
Lemma entry_words_start_agree off n :
  JBI_JOFF off = off + ITER_ARR_JOFF n /\ JBN_JOFF off = off + ITER_ENT_JOFF n /\ JBN_JOFF off = off + ITER_KEYS_JOFF n /\
  off + OKS_JOFF = JBN_JOFF off /\ off + OEA_OFF0 = JBN_JOFF off /\ off + AVS_JOFF = JBI_JOFF off /\
  CTS_ARR_JOFF off = JBI_JOFF off /\ CTS_OBJ_JOFF off = JBN_JOFF off /\ CTS_SC_JOFF off = JBI_JOFF off /\
  off + CMP_ARR_LSKIP + CMA_JOFF = JBI_JOFF off /\ off + CMP_ARR_RSKIP + CMA_JOFF = JBI_JOFF off /\
  off + CMP_OBJ_LSKIP + CMO_LJOFF = JBN_JOFF off /\ off + CMP_OBJ_RSKIP + CMO_RJOFF = JBN_JOFF off /\
  off + CVC_ARR_SKIP + CVA_JOFF = JBI_JOFF off /\ off + CVC_OBJ_SKIP + CVO_JOFF = JBN_JOFF off /\
  off + CPR_SC_LJOFF = JBI_JOFF off /\ off + CPR_SC_RJOFF = JBI_JOFF off /\ off + CPR_MIX_LJOFF = JBI_JOFF off /\ off + CPR_MIX_RJOFF = JBI_JOFF off.
Proof.
  unfold JBI_JOFF, JBN_JOFF, ITER_ARR_JOFF, ITER_ENT_JOFF, ITER_KEYS_JOFF, OKS_JOFF, OEA_OFF0, AVS_JOFF, CTS_ARR_JOFF, CTS_OBJ_JOFF,
    CTS_SC_JOFF, CMP_ARR_LSKIP, CMP_ARR_RSKIP, CMP_OBJ_LSKIP, CMP_OBJ_RSKIP, CMA_JOFF, CMO_LJOFF, CMO_RJOFF, CVC_ARR_SKIP, CVC_OBJ_SKIP,
    CVA_JOFF, CVO_JOFF, CPR_SC_LJOFF, CPR_SC_RJOFF, CPR_MIX_LJOFF, CPR_MIX_RJOFF. repeat split; lia.
Qed.
(* ---- where the keys of an object start: header + 2n entry words; the value offset starts there and is advanced by the key
        lengths in the first loop ---- *)
Lemma obj_keys_start_agree off n :
  JBN_KOFF off n = off + ITER_ENT_KOFF n /\ JBN_KOFF off n = off + ITER_KEYS_KOFF n /\ JBN_VOFF off n = off + ITER_ENT_VOFF n /\
  JBN_VOFF off n = JBN_KOFF off n /\
  off + OKS_KOFF n = JBN_KOFF off n /\ OKS_PREV_KOFF n = OKS_KOFF n /\
  off + OEA_OFF0 + OEA_STEP * OEA_WORDS n = JBN_KOFF off n /\
  CTS_OBJ_KOFF off n = JBN_KOFF off n /\
  SOV_OFF off n = JBN_KOFF off n /\ SBN_OFF off n = JBN_KOFF off n /\
  off + CMP_OBJ_LSKIP + CMO_LKOFF n = JBN_KOFF off n /\ off + CMP_OBJ_RSKIP + CMO_RKOFF n = JBN_KOFF off n /\
  off + CPR_OBJ_LSKIP + CMO_LKOFF n = JBN_KOFF off n /\ off + CPR_OBJ_RSKIP + CMO_RKOFF n = JBN_KOFF off n /\
  CMO_LVOFF n = CMO_LKOFF n /\ CMO_RVOFF n = CMO_RKOFF n /\
  off + CVC_OBJ_SKIP + CVO_KOFF n = JBN_KOFF off n /\ CVO_VOFF n = CVO_KOFF n /\
  off + BLD_OBJ_LEN0 n = JBN_KOFF off n.
Proof.
  unfold JBN_KOFF, JBN_VOFF, ITER_ENT_KOFF, ITER_KEYS_KOFF, ITER_ENT_VOFF, OKS_KOFF, OKS_PREV_KOFF, OEA_OFF0, OEA_STEP, OEA_WORDS,
    CTS_OBJ_KOFF, SOV_OFF, SBN_OFF, CMP_OBJ_LSKIP, CMP_OBJ_RSKIP, CPR_OBJ_LSKIP, CPR_OBJ_RSKIP, CMO_LKOFF, CMO_RKOFF, CMO_LVOFF, CMO_RVOFF,
    CVC_OBJ_SKIP, CVO_KOFF, CVO_VOFF, BLD_OBJ_LEN0. repeat split; lia.
Qed.
(* ---- a scalar document: header, entry word, payload ---- *)
Lemma scalar_doc_agree off :
  CTS_SC_VOFF off = CTS_SC_JOFF off + STS_JSTEP /\ off + CPR_SC_LSKIP = CTS_SC_VOFF off /\ off + CPR_SC_RSKIP = CTS_SC_VOFF off.
Proof. unfold CTS_SC_VOFF, CTS_SC_JOFF, STS_JSTEP, CPR_SC_LSKIP, CPR_SC_RSKIP. repeat split; lia. Qed.
(* ---- every loop advances the entry offset by one entry word, the size the builder writes ---- *)
Lemma strides_agree :
  JBI_JSTEP = BLD_JSTEP /\ JBN_JSTEP1 = BLD_JSTEP /\ JBN_JSTEP2 = BLD_JSTEP /\ OKS_JSTEP = BLD_JSTEP /\ OEA_STEP = BLD_JSTEP /\
  AVS_JSTEP = BLD_JSTEP /\ CMA_JSTEP = BLD_JSTEP /\ CMO_LJSTEP1 = BLD_JSTEP /\ CMO_LJSTEP2 = BLD_JSTEP /\ CMO_RJSTEP1 = BLD_JSTEP /\
  CMO_RJSTEP2 = BLD_JSTEP /\ CVA_JSTEP = BLD_JSTEP /\ CVO_JSTEP1 = BLD_JSTEP /\ CVO_JSTEP2 = BLD_JSTEP /\ CTS_OBJ_JSTEP = BLD_JSTEP /\
  STS_JSTEP = BLD_JSTEP /\ BSA_JSTEP = BLD_JSTEP /\ ITER_ARR_JSTEP = BLD_JSTEP /\ ITER_KEYS_JSTEP = BLD_JSTEP /\ ITER_ENT_JSTEP = BLD_JSTEP /\
  ITER_FILL_JSTEP = BLD_JSTEP.
Proof. repeat split; reflexivity. Qed.
(* the first loops of get_jentry_by_name, object_keys, object_each, compare_object, object_convert_to_comparable and
   container_to_string (object arm) are run by Walk.rd_words in the models, which advances by 4 *)
Lemma rd_words_strides :
  JBN_JSTEP1 = 4 /\ OKS_JSTEP = 4 /\ OEA_STEP = 4 /\ CMO_LJSTEP1 = 4 /\ CMO_RJSTEP1 = 4 /\ CVO_JSTEP1 = 4 /\ CTS_OBJ_JSTEP = 4.
Proof. repeat split; reflexivity. Qed.
(* the loop bound of compare_array / compare_object is the smaller count (the models recurse on the shorter list / stop at it) *)
Lemma compare_len_min l r : CMA_LEN l r = N.min l r /\ CMO_LEN l r = N.min l r.
Proof. unfold CMA_LEN, CMO_LEN. destruct (l <=? r) eqn:E; [apply N.leb_le in E|apply N.leb_gt in E]; split; lia. Qed.
(* object_each reads the key words and the value words in one loop; the value offset of container_to_string starts where the
   key loop ended *)
Lemma misc_agree n k : OEA_WORDS n = n + n /\ CTS_OBJ_VOFF k = k /\ BSA_RESERVE k n = k + BLD_ARR_RESERVE n.
Proof. unfold OEA_WORDS, CTS_OBJ_VOFF, BSA_RESERVE, BLD_ARR_RESERVE. repeat split; lia. Qed.
