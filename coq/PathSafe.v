(* PathSafe.v — the executable class of JSONPath ASTs for which print-then-parse is proved to be the identity (C09).
   "An accepted path whose names and string literals contain nothing that needs quoting or escaping":
   every constructor shape the parser can produce, with
     - plain names (.name / :name): non-empty, valid UTF-8, no delimiter byte of raw_string, no backslash;
     - quoted names (["name"]) and string literals: valid UTF-8, no double quote, no backslash;
     - indices and `last` offsets: any i32;
     - integer literals as the parser types them: u64 as NUInt, negative i64 as NInt; floats under a per-float test.
   No bound on the length or the nesting depth: the predicates recurse on the structure of the AST, as the printer does.
   Definitions only (no proofs): PathRoundtrip.v has the theorem. *)
From Coq Require Import List NArith ZArith Bool.
Import ListNotations.
From JB Require Import Constants Bytes Utf8 Num Value TreeOps Path PathParse.
Open Scope N_scope.

Definition plain_byteb (stopf : N -> bool) (b : N) : bool := negb (stopf b) && negb (b =? 92).
Definition is_nil {A} (l : list A) : bool := match l with [] => true | _ => false end.
Definition safe_nameb (s : list N) : bool :=
  negb (is_nil s) && forallb (plain_byteb is_delim) s && utf8_valid s.
Definition safe_quotedb (s : list N) : bool :=
  forallb (plain_byteb (fun c => c =? 34)) s && utf8_valid s.

Definition safe_index (i : index) : bool :=
  match i with
  | IIndex z => (-2147483648 <=? z)%Z && (z <=? 2147483647)%Z
  | ILast z => (-2147483648 <=? z)%Z && (z <=? 2147483647)%Z
  end.
Definition safe_aindex (a : array_index) : bool :=
  match a with AIndex i => safe_index i | ASlice s e => safe_index s && safe_index e end.

(* the steps `inner_path` reads: everything but filters *)
Definition safe_inner (p : path) : bool :=
  match p with
  | PDotWild | PBracketWild => true
  | PDotField s | PColonField s => safe_nameb s
  | PObjectField s => safe_quotedb s
  | PIndices l => negb (is_nil l) && forallb safe_aindex l
  | _ => false
  end.

Section Safe.
  Variable okf : N -> bool.       (* which float literals are admitted *)

  Definition safe_value (v : pvalue) : bool :=
    match v with
    | PVNull | PVBool _ => true
    | PVNum (NInt z) => (- two63 <=? z)%Z && (z <? 0)%Z
    | PVNum (NUInt u) => u <? two64
    | PVNum (NFloat b) => okf b
    | PVStr s => safe_quotedb s
    end.

  (* operands of comparisons and arithmetic: `$`/`@` followed by non-filter steps, or a literal;
     under a top-level predicate (rp) only `$` *)
  Definition safe_operand (rp : bool) (e : expr) : bool :=
    match e with
    | EPaths (PRoot :: l) => forallb safe_inner l
    | EPaths (PCurrent :: l) => negb rp && forallb safe_inner l
    | EValue v => safe_value v
    | _ => false
    end.
  Definition is_cmp (o : binop) : bool := match o with OAnd | OOr => false | _ => true end.
  (* a unary sign is covered in front of a path operand only: in front of a literal the text may lex as a signed number *)
  Definition is_paths (e : expr) : bool := match e with EPaths _ => true | _ => false end.

  Definition safe_step_with (se : expr -> bool) (p : path) : bool :=
    match p with
    | PFilter e => se e
    | _ => safe_inner p
    end.
  Fixpoint safe_expr (rp : bool) (e : expr) {struct e} : bool :=
    match e with
    | EBin op l r =>
        if is_cmp op then safe_operand rp l && safe_operand rp r
        else safe_expr rp l && safe_expr rp r
    | EArithB _ l r => safe_operand rp l && safe_operand rp r
    | EArithU _ x => is_paths x && safe_operand rp x
    | EExists (PRoot :: l) | EExists (PCurrent :: l) => forallb (safe_step_with (fun e' => safe_expr false e')) l
    | _ => false
    end.
  Definition safe_step (p : path) : bool := safe_step_with (safe_expr false) p.

  (* an un-rooted path starts with a step; if that is a .name, the name must not start with a digit
     (".5e" is read as a malformed float: PathRoundtrip.unrooted_digit_name_refuted) *)
  Definition first_ok (l : list path) : bool :=
    match l with PDotField (c :: _) :: _ => negb (is_digit c) | _ => true end.

  Definition safe_path (ps : list path) : bool :=
    match ps with
    | [PPredicate e] => safe_expr true e
    | PRoot :: l => forallb safe_step l
    | l => forallb safe_step l && first_ok l
    end.

  (* ---- the same conditions without the shape: "nothing needs quoting or escaping, literals typed as the parser types
     them". PathImage.leaf_shape_safe: on a path of the parser's shape (every
     accepted path has it: PathImage.parse_image) leaf_path is the same as safe_path. *)
  Definition leaf_inner (p : path) : bool :=
    match p with
    | PDotField s | PColonField s => safe_nameb s
    | PObjectField s => safe_quotedb s
    | PIndices l => forallb safe_aindex l
    | _ => true
    end.
  Definition leaf_operand (e : expr) : bool :=
    match e with EPaths l => forallb leaf_inner l | EValue v => safe_value v | _ => true end.
  Definition leaf_step_with (le : expr -> bool) (p : path) : bool :=
    match p with PFilter e => le e | _ => leaf_inner p end.
  Fixpoint leaf_expr (e : expr) {struct e} : bool :=
    match e with
    | EBin op l r => if is_cmp op then leaf_operand l && leaf_operand r else leaf_expr l && leaf_expr r
    | EArithB _ l r => leaf_operand l && leaf_operand r
    | EArithU _ x => is_paths x && leaf_operand x
    | EExists l => forallb (leaf_step_with (fun e' => leaf_expr e')) l
    | _ => true
    end.
  Definition leaf_step (p : path) : bool := leaf_step_with leaf_expr p.
  Definition leaf_path (ps : list path) : bool :=
    match ps with
    | [PPredicate e] => leaf_expr e
    | PRoot :: l => forallb leaf_step l
    | l => forallb leaf_step l && first_ok l
    end.
End Safe.

Definition no_floats : N -> bool := fun _ => false.
(* the three non-finite doubles (the patterns the parser produces for them: `inf` / an overflowing literal, `-inf` / a literal
   overflowing downwards, `nan`): their printed texts inf, -inf, NaN are read back (PathRoundtrip.path_float_reads_back_nonfinite;
   -inf since the fix e1187a7 of the crate) *)
Definition nonfinite_floats (b : N) : bool := (b =? F_INF) || (b =? F_NEG_INF) || (b =? F_NAN).
