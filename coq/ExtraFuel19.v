(* ExtraFuel19.v — the recursion fuel of the models is never the reason for an answer of to_serde_json /
   to_serde_json_object, on ARBITRARY input bytes (no well-formedness hypothesis):
     - the JSON text parser (JsonText.parse_value: fuel S (length bs) in parse_json_value / arr_loop / obj_loop /
       parse_string_fuel) never answers Err EFuel;
     - the byte walker container_to_serde_w (fuel S (length bs), one unit per nesting level, each nested payload slice
       is at least 8 bytes shorter) never answers Err EFuel.
   Also: generic invariants for the folds of Iter.v on arbitrary buffers (used by ExtraFuel06.v). *)
From Coq Require Import List NArith ZArith Bool Lia.
Import ListNotations.
From JB Require Import Constants Bytes Utf8 Num Value Codec Decimal JsonText TextProofs JsonGrammar JsonGrammarProofs
  Serde Dispatch Walk Iter RenderWalkProofs ContainWalkProofs SerdeWalk.
Open Scope N_scope.
Set Default Timeout 120.

Arguments N.lor : simpl never.
Arguments N.land : simpl never.
Arguments N.add : simpl never.
Arguments N.mul : simpl never.
Arguments N.sub : simpl never.
Arguments N.ltb : simpl never.
Arguments N.leb : simpl never.
Arguments N.eqb : simpl never.
Arguments be32 : simpl never.
Arguments read_u32 : simpl never.
Arguments slice : simpl never.

Lemma nf_err {A B} e : @nf A (Err e) -> @nf B (Err e).
Proof. intros H E. apply H. injection E as ->. reflexivity. Qed.

(* leaves that are visibly not Err EFuel, binds, case analyses *)
Ltac nf_leaf := first [apply nf_ok | apply nf_other | apply nf_panic | (intros HH; discriminate HH)].
Ltac nf_crush :=
  repeat (cbv beta zeta;
          first [ nf_leaf
                | apply nf_bind; [|intros ? _]
                | match goal with
                  | |- nf (match ?x with _ => _ end) => destruct x
                  end ]).

(* ================================================================ the JSON text parser *)
Lemma skip_len bs : (length (skip_unused bs) <= length bs)%nat.
Proof. destruct (skip_sound bs) as (w & E & _). apply (f_equal (@length _)) in E. rewrite app_length in E. lia. Qed.

Lemma pv_dec fuel bs v rest : parse_json_value fuel bs = Ok (v, rest) -> (length rest < length bs)%nat.
Proof.
  intros H. destruct (parse_json_value_sound fuel bs v rest H) as (w & t & E & _ & Hv).
  apply value_nonempty in Hv. apply (f_equal (@length _)) in E. rewrite !app_length in E. lia.
Qed.

Lemma parse_json_number_nf bs : nf (parse_json_number bs).
Proof. unfold parse_json_number. nf_crush. Qed.

Lemma read_unicode_digits_nf d : nf (read_unicode_digits d).
Proof. unfold read_unicode_digits. nf_crush. Qed.
Lemma read_unicode_digits_len d n r : read_unicode_digits d = Ok (n, r) -> (length r <= length d)%nat.
Proof.
  unfold read_unicode_digits. destruct d as [|x r0]; [discriminate|].
  destruct (x =? 123).
  - destruct (length r0 <? 4)%nat; [discriminate|]. destruct (skipn 4 r0) as [|y r3] eqn:S; [discriminate|].
    destruct (y =? 125); [|discriminate]. intros H. injection H as <- <-.
    pose proof (skipn_length 4 r0) as L. rewrite S in L. cbn [length] in *. lia.
  - generalize (x :: r0). intros d. destruct (length d <? 4)%nat; [discriminate|]. intros H. injection H as <- <-.
    pose proof (skipn_length 4 d) as L. cbn [skipn] in L. lia.
Qed.

Lemma parse_escaped_nf d : nf (parse_escaped_string d).
Proof.
  unfold parse_escaped_string. destruct d as [|b r]; [apply nf_panic|].
  repeat match goal with |- nf (if ?c then _ else _) => destruct c; [try apply nf_ok|] end; [|apply nf_other].
  apply nf_bind; [apply read_unicode_digits_nf|]. intros [numbers r1] _.
  destruct (decode_hex_escape numbers 0) as [hex|]; [|apply nf_other].
  destruct ((56320 <=? hex) && (hex <=? 57343)); [apply nf_ok|].
  destruct ((55296 <=? hex) && (hex <=? 56319)); [|apply nf_ok].
  destruct r1 as [|a r1]; [apply nf_ok|].
  destruct (N.eq_dec a 92) as [->|Na].
  2:{ destruct a as [|p]; [apply nf_ok|]. do 7 (destruct p; try apply nf_ok). exfalso; apply Na; reflexivity. }
  destruct r1 as [|c r2]; [apply nf_ok|].
  destruct (N.eq_dec c 117) as [->|Nc].
  2:{ destruct c as [|p]; [apply nf_ok|]. do 7 (destruct p; try apply nf_ok). exfalso; apply Nc; reflexivity. }
  apply nf_bind; [apply read_unicode_digits_nf|]. intros [lower r3] _.
  destruct (decode_hex_escape lower 0) as [n2|]; [|apply nf_other].
  destruct ((56320 <=? n2) && (n2 <=? 57343)); apply nf_ok.
Qed.

Lemma parse_escaped_len d r' chunk : parse_escaped_string d = Ok (r', chunk) -> (length r' <= length d)%nat.
Proof.
  unfold parse_escaped_string. destruct d as [|b r]; [discriminate|].
  repeat match goal with |- (if ?c then _ else _) = _ -> _ =>
           destruct c; [intros H; injection H as <- <-; cbn [length]; lia|] end.
  destruct (b =? 117); [|discriminate].
  destruct (read_unicode_digits r) as [[numbers r1]| |] eqn:E1; cbn [bind]; try discriminate.
  apply read_unicode_digits_len in E1.
  destruct (decode_hex_escape numbers 0) as [hex|]; [|discriminate].
  destruct ((56320 <=? hex) && (hex <=? 57343)); [intros H; injection H as <- <-; cbn [length]; lia|].
  destruct ((55296 <=? hex) && (hex <=? 56319)); [|intros H; injection H as <- <-; cbn [length]; lia].
  destruct r1 as [|a r1]; [intros H; injection H as <- <-; cbn [length]; lia|].
  destruct (N.eq_dec a 92) as [->|Na].
  2:{ destruct a as [|p]; [intros H; injection H as <- <-; cbn [length] in *; lia|].
      do 7 (destruct p; try (intros H; injection H as <- <-; cbn [length] in *; lia)). exfalso; apply Na; reflexivity. }
  destruct r1 as [|c r2]; [intros H; injection H as <- <-; cbn [length] in *; lia|].
  destruct (N.eq_dec c 117) as [->|Nc].
  2:{ destruct c as [|p]; [intros H; injection H as <- <-; cbn [length] in *; lia|].
      do 7 (destruct p; try (intros H; injection H as <- <-; cbn [length] in *; lia)). exfalso; apply Nc; reflexivity. }
  destruct (read_unicode_digits r2) as [[lower r3]| |] eqn:E2; cbn [bind]; try discriminate.
  apply read_unicode_digits_len in E2.
  destruct (decode_hex_escape lower 0) as [n2|]; [|discriminate].
  destruct ((56320 <=? n2) && (n2 <=? 57343)); intros H; injection H as <- <-; cbn [length] in *; lia.
Qed.

Lemma parse_string_fuel_nf : forall fuel data buf, (length data < fuel)%nat -> nf (parse_string_fuel fuel data buf).
Proof.
  induction fuel as [|f IH]; intros data buf H; [lia|]. cbn [parse_string_fuel].
  destruct data as [|b r]; [destruct (utf8_valid buf); [apply nf_ok|apply nf_other]|]. cbn [length] in H.
  destruct (b =? 92).
  - apply nf_bind; [apply parse_escaped_nf|]. intros [r' chunk] E. apply parse_escaped_len in E. apply IH. lia.
  - apply IH. lia.
Qed.

Lemma parse_json_string_nf bs : nf (parse_json_string bs).
Proof.
  unfold parse_json_string. destruct (scan_string (S (length bs)) bs [] 0) as [[[data esc] rest]|]; [|apply nf_other].
  destruct esc; [destruct (utf8_valid data); [apply nf_ok|apply nf_other]|].
  apply nf_bind; [|intros; apply nf_ok]. apply parse_string_fuel_nf. lia.
Qed.

Section LoopsNf.
  Variable pv : list N -> res (value * list N).
  Variable F : nat.
  Hypothesis Hnf : forall bs, (length bs < F)%nat -> nf (pv bs).
  Hypothesis Hdec : forall bs v rest, pv bs = Ok (v, rest) -> (length rest < length bs)%nat.

  Lemma arr_loop_nf : forall k first acc bs, (length bs < k)%nat -> (k <= F)%nat -> nf (arr_loop pv k first acc bs).
  Proof.
    induction k as [|k IH]; intros first acc bs Hk HF; [lia|]. cbn [arr_loop].
    pose proof (skip_len bs) as SL. destruct (skip_unused bs) as [|c r]; [apply nf_other|]. cbn [length] in SL.
    destruct (c =? 93); [apply nf_ok|].
    destruct (if first then Some (c :: r) else if c =? 44 then Some r else None) as [bs'|] eqn:Ea; [|apply nf_other].
    assert (Lb : (length bs' <= length bs)%nat).
    { destruct first; [injection Ea as <-; cbn [length]; lia|]. destruct (c =? 44); [injection Ea as <-; lia|discriminate]. }
    apply nf_bind; [apply Hnf; lia|]. intros [v bs''] E. apply Hdec in E. apply IH; lia.
  Qed.

  Lemma obj_loop_nf : forall k first acc bs, (length bs < k)%nat -> (k <= F)%nat -> nf (obj_loop pv k first acc bs).
  Proof.
    induction k as [|k IH]; intros first acc bs Hk HF; [lia|]. cbn [obj_loop].
    pose proof (skip_len bs) as SL. destruct (skip_unused bs) as [|c r]; [apply nf_other|]. cbn [length] in SL.
    destruct (c =? 125); [apply nf_ok|].
    destruct (if first then Some (c :: r) else if c =? 44 then Some r else None) as [bs'|] eqn:Ea; [|apply nf_other].
    assert (Lb : (length bs' <= length bs)%nat).
    { destruct first; [injection Ea as <-; cbn [length]; lia|]. destruct (c =? 44); [injection Ea as <-; lia|discriminate]. }
    apply nf_bind; [apply Hnf; lia|]. intros [key bs1] E. apply Hdec in E.
    destruct key; try apply nf_other.
    pose proof (skip_len bs1) as SL1. destruct (skip_unused bs1) as [|c2 bs2]; [apply nf_other|]. cbn [length] in SL1.
    destruct c2 as [|p]; [apply nf_other|]. do 6 (destruct p; try apply nf_other).
    apply nf_bind; [apply Hnf; lia|]. intros [v bs3] E2. apply Hdec in E2. apply IH; lia.
  Qed.
End LoopsNf.

Lemma parse_json_value_nf : forall fuel bs, (length bs < fuel)%nat -> nf (parse_json_value fuel bs).
Proof.
  induction fuel as [|f IH]; intros bs H; [lia|]. cbn [parse_json_value].
  pose proof (skip_len bs) as SL. destruct (skip_unused bs) as [|c r]; [apply nf_other|]. cbn [length] in SL.
  repeat match goal with
         | |- nf (if ?c then _ else _) => destruct c
         | |- nf (match expect ?l ?r with _ => _ end) => destruct (expect l r)
         end; try apply nf_ok; try apply nf_other.
  - apply parse_json_number_nf.
  - apply nf_bind; [apply parse_json_string_nf|]. intros [s r'] _. apply nf_ok.
  - apply (arr_loop_nf (parse_json_value f) f IH (pv_dec f)); lia.
  - apply (obj_loop_nf (parse_json_value f) f IH (pv_dec f)); lia.
Qed.

(* the parser's fuel is never the reason for its answer *)
Theorem parse_value_not_fuel bs : parse_value bs <> Err EFuel.
Proof.
  change (nf (parse_value bs)). unfold parse_value. apply nf_bind; [apply parse_json_value_nf; lia|].
  intros [v rest] _. destruct (skip_unused rest); [apply nf_ok|apply nf_other].
Qed.

(* ================================================================ tree conversion (no fuel at all) *)
Lemma to_serde_nf onf : nf onf -> forall v, nf (to_serde onf v).
Proof.
  intros Ho. induction v as [| | |n|l IH|o IH] using value_ind2; cbn [to_serde]; try apply nf_ok.
  - destruct n as [z|u|fb]; try apply nf_ok. destruct (snum_of_f64 fb); [apply nf_ok|exact Ho].
  - apply nf_bind; [|intros; apply nf_ok].
    induction IH as [|x r Hx Hr IHr]; [apply nf_ok|].
    apply nf_bind; [exact Hx|]. intros a _. apply nf_bind; [exact IHr|]. intros; apply nf_ok.
  - apply nf_bind; [|intros; apply nf_ok].
    induction IH as [|[k x] r Hx Hr IHr]; [apply nf_ok|].
    apply nf_bind; [exact Hx|]. intros a _. apply nf_bind; [exact IHr|]. intros; apply nf_ok.
Qed.

(* ================================================================ the byte walker *)
Lemma scalar_to_serde_nf rec j p : nf (rec p) -> nf (scalar_to_serde_w rec j p).
Proof.
  intros Hr. unfold scalar_to_serde_w. cbv zeta.
  destruct (fst j =? NULL_TAG); [apply nf_ok|]. destruct (fst j =? TRUE_TAG); [apply nf_ok|].
  destruct (fst j =? FALSE_TAG); [apply nf_ok|].
  destruct (fst j =? NUMBER_TAG).
  { destruct (slice p 0 (snd j)) as [b|]; [|apply nf_panic].
    apply nf_bind; [apply num_decode_not_fuel|]. intros n _. unfold num_to_serde_w.
    destruct n as [z|u|fb]; try apply nf_ok. destruct (snum_of_f64 fb); [apply nf_ok|apply nf_other]. }
  destruct (fst j =? STRING_TAG); [destruct (slice p 0 (snd j)); [apply nf_ok|apply nf_panic]|].
  destruct (fst j =? CONTAINER_TAG); [exact Hr|apply nf_other].
Qed.

Lemma members_to_serde_nf rec bs hdr : (forall p, lenN p + 8 <= lenN bs -> nf (rec p)) -> nf (members_to_serde_w rec bs hdr).
Proof.
  intros Hr. unfold members_to_serde_w. apply iterate_object_entries_nf; [intros; apply nf_ok|].
  intros s k j p Lp. apply nf_bind; [apply scalar_to_serde_nf; apply Hr; exact Lp|]. intros; apply nf_ok.
Qed.
Lemma elements_to_serde_nf rec bs hdr : (forall p, lenN p + 8 <= lenN bs -> nf (rec p)) -> nf (elements_to_serde_w rec bs hdr).
Proof.
  intros Hr. unfold elements_to_serde_w. apply iterate_array_nf; [intros; apply nf_ok|].
  intros s j p Lp. apply nf_bind; [apply scalar_to_serde_nf; apply Hr; exact Lp|]. intros; apply nf_ok.
Qed.

Lemma slice_from_len bs off p : slice_from bs off = Some p -> lenN p + off = lenN bs.
Proof.
  unfold slice_from. destruct (off <=? lenN bs) eqn:E; [|discriminate]. apply N.leb_le in E.
  intros H. injection H as <-. unfold lenN in *. rewrite skipn_length. lia.
Qed.

Theorem container_to_serde_fuel : forall fuel bs, (length bs < fuel)%nat -> container_to_serde_w fuel bs <> Err EFuel.
Proof.
  induction fuel as [|f IH]; intros bs H; [lia|]. change (nf (container_to_serde_w (S f) bs)). cbn [container_to_serde_w]. cbv zeta.
  assert (Hr : forall p, lenN p + 8 <= lenN bs -> nf (container_to_serde_w f p)).
  { intros p Lp. apply IH. unfold lenN in Lp. lia. }
  destruct (hdr_type (header_or_default bs) =? OBJECT_CONTAINER_TAG).
  { apply nf_bind; [apply members_to_serde_nf; exact Hr|]. intros; apply nf_ok. }
  destruct (hdr_type (header_or_default bs) =? ARRAY_CONTAINER_TAG).
  { apply nf_bind; [apply elements_to_serde_nf; exact Hr|]. intros; apply nf_ok. }
  destruct (hdr_type (header_or_default bs) =? SCALAR_CONTAINER_TAG); [|apply nf_other].
  destruct (read_u32 bs 4) as [w|]; [|apply nf_other].
  destruct (slice_from bs 8) as [p|] eqn:Sp; [|apply nf_panic].
  apply scalar_to_serde_nf. apply Hr. apply slice_from_len in Sp. lia.
Qed.

Lemma to_serde_json_m_text_nf bs : is_jsonb bs = false -> nf (to_serde_json_m bs).
Proof.
  intros E. unfold to_serde_json_m, doc_of. rewrite E. apply nf_bind; [apply parse_value_not_fuel|].
  intros v _. apply to_serde_nf. apply nf_other.
Qed.

(* the public functions, on ANY input bytes (binary or text, well-formed or not) *)
Theorem to_serde_json_w_not_fuel : forall bs, to_serde_json_w bs <> Err EFuel.
Proof.
  intros bs. unfold to_serde_json_w. destruct (is_jsonb bs) eqn:E.
  - apply container_to_serde_fuel. lia.
  - apply to_serde_json_m_text_nf. exact E.
Qed.
Print Assumptions to_serde_json_w_not_fuel.

Theorem to_serde_json_object_w_not_fuel : forall bs, to_serde_json_object_w bs <> Err EFuel.
Proof.
  intros bs. change (nf (to_serde_json_object_w bs)). unfold to_serde_json_object_w. destruct (is_jsonb bs) eqn:E.
  - unfold container_to_serde_object_w. cbv zeta.
    destruct (hdr_type (header_or_default bs) =? OBJECT_CONTAINER_TAG).
    { apply nf_bind; [|intros; apply nf_ok]. apply members_to_serde_nf. intros p Lp.
      apply container_to_serde_fuel. unfold lenN in Lp. lia. }
    destruct ((hdr_type (header_or_default bs) =? ARRAY_CONTAINER_TAG) || (hdr_type (header_or_default bs) =? SCALAR_CONTAINER_TAG));
      [apply nf_ok|apply nf_other].
  - unfold to_serde_json_object_m, doc_of. rewrite E. apply nf_bind; [apply parse_value_not_fuel|].
    intros v _. unfold to_serde_json_object_t. destruct v; try apply nf_ok.
    apply nf_bind; [apply to_serde_nf; apply nf_other|]. intros; apply nf_ok.
Qed.
Print Assumptions to_serde_json_object_w_not_fuel.

(* corrupt buffers: the walker answers, and the answer is not the fuel *)
Definition fuel19_doc := VArr [VObj [([97], VArr [VNull; VStr [98;99]])]; VBool true].
Example fuel19_ok : to_serde_json_w (enc fuel19_doc) = Ok (SArr [SObj [([97], SArr [SNull; SStr [98; 99]])]; SBool true]).
Proof. vm_compute. reflexivity. Qed.
(* truncated encoding: a payload slice is out of bounds *)
Example fuel19_truncated : to_serde_json_w (firstn 30 (enc fuel19_doc)) = Panic.
Proof. vm_compute. reflexivity. Qed.
(* the element count of the top array replaced by 2^29 - 1 *)
Example fuel19_huge_count : to_serde_json_w (128 :: 255 :: 255 :: 255 :: skipn 4 (enc fuel19_doc)) = Panic.
Proof. vm_compute. reflexivity. Qed.
(* the header type of the nested array replaced by an unknown one *)
Example fuel19_bad_nested_header : to_serde_json_w (firstn 25 (enc fuel19_doc) ++ 0 :: skipn 26 (enc fuel19_doc)) = Err EOther.
Proof. vm_compute. reflexivity. Qed.
(* text that opens arrays and never closes them *)
Example fuel19_text : to_serde_json_w [91; 91; 91] = Err EOther.
Proof. vm_compute. reflexivity. Qed.
