(* NumProofs.v — theorems about Num.v: totality of decoding, the order laws, refutation of the old order *)
From Coq Require Import List NArith ZArith Bool Lia.
Import ListNotations.
From JB Require Import Constants Bytes Num.
Open Scope N_scope.
Set Default Timeout 60.

(* ---- decoding never panics ---- *)
Lemma num_decode_total : forall bs, num_decode bs <> Panic.
Proof.
  intros [|ty rest]; cbn [num_decode]; [discriminate|].
  repeat match goal with
         | |- context [if ?c then _ else _] => destruct c
         | |- context [match ?l with O => _ | S _ => _ end] => destruct l
         end; discriminate.
Qed.

(* ---- the extended line is totally ordered ---- *)
Lemma ext_cmp_refl e : ext_cmp e e = Eq.
Proof. destruct e; cbn; try reflexivity. apply Z.compare_refl. Qed.

Lemma ext_cmp_antisym a b : ext_cmp a b = CompOpp (ext_cmp b a).
Proof. destruct a, b; cbn; try reflexivity. apply Z.compare_antisym. Qed.

Ltac zc := repeat match goal with
  | H : (_ ?= _)%Z = Eq |- _ => apply Z.compare_eq_iff in H
  | H : (_ ?= _)%Z = Lt |- _ => rewrite Z.compare_lt_iff in H
  | H : (_ ?= _)%Z = Gt |- _ => rewrite Z.compare_gt_iff in H
  | |- (_ ?= _)%Z = Eq => apply Z.compare_eq_iff
  | |- (_ ?= _)%Z = Lt => rewrite Z.compare_lt_iff
  | |- (_ ?= _)%Z = Gt => rewrite Z.compare_gt_iff end.

Lemma ext_cmp_trans a b c o : ext_cmp a b = o -> ext_cmp b c = o -> ext_cmp a c = o.
Proof.
  destruct a, b, c, o; cbn; intros H1 H2; try discriminate; try reflexivity; zc; lia.
Qed.

Lemma ext_cmp_eq_l a b c : ext_cmp a b = Eq -> ext_cmp b c = ext_cmp a c.
Proof.
  destruct a, b, c; cbn; intros H; try discriminate; try reflexivity. zc. subst. reflexivity.
Qed.
Lemma ext_cmp_eq_r a b c : ext_cmp b c = Eq -> ext_cmp a b = ext_cmp a c.
Proof.
  destruct a, b, c; cbn; intros H; try discriminate; try reflexivity. zc. subst. reflexivity.
Qed.

(* ---- Ord for Number: a total preorder whose equivalence is "same mathematical value" ---- *)
Lemma num_cmp_refl a : num_cmp a a = Eq.
Proof. apply ext_cmp_refl. Qed.
Lemma num_cmp_antisym a b : num_cmp a b = CompOpp (num_cmp b a).
Proof. apply ext_cmp_antisym. Qed.
Lemma num_cmp_trans a b c o : num_cmp a b = o -> num_cmp b c = o -> num_cmp a c = o.
Proof. apply ext_cmp_trans. Qed.
Lemma num_cmp_eq_l a b c : num_cmp a b = Eq -> num_cmp b c = num_cmp a c.
Proof. apply ext_cmp_eq_l. Qed.
Lemma num_cmp_eq_r a b c : num_cmp b c = Eq -> num_cmp a b = num_cmp a c.
Proof. apply ext_cmp_eq_r. Qed.
Lemma num_cmp_eq_iff a b : num_cmp a b = Eq <-> scaled a = scaled b.
Proof.
  unfold num_cmp. destruct (scaled a) as [|x| |], (scaled b) as [|y| |]; cbn; split; intros H;
    try discriminate; try reflexivity.
  - zc. subst. reflexivity.
  - inversion H. apply Z.compare_refl.
Qed.
(* NaN is greatest and equal to itself *)
Lemma num_cmp_nan_greatest a b : scaled b = ENaN -> scaled a <> ENaN -> num_cmp a b = Lt.
Proof. unfold num_cmp. intros ->. destruct (scaled a); cbn; intros H; try reflexivity. congruence. Qed.

(* a signed and an unsigned integer of the same value are equal *)
Lemma num_cmp_int_uint z : (0 <= z)%Z -> num_cmp (NInt z) (NUInt (Z.to_N z)) = Eq.
Proof. intros H. unfold num_cmp. cbn [scaled ext_cmp]. rewrite Z2N.id by exact H. apply Z.compare_refl. Qed.

(* integers are ordered as integers, whatever their signedness *)
Lemma two1074_pos : (0 < two1074)%Z.
Proof. unfold two1074. apply Z.pow_pos_nonneg; lia. Qed.
Lemma num_cmp_ints x y : num_cmp (NInt x) (NInt y) = (x ?= y)%Z.
Proof.
  unfold num_cmp. cbn [scaled ext_cmp]. pose proof two1074_pos.
  destruct (Z.compare_spec x y) as [->|Hl|Hg].
  - apply Z.compare_refl.
  - apply Z.compare_lt_iff. nia.
  - apply Z.compare_gt_iff. nia.
Qed.

(* ---- the order before the fix was not transitive (kept as the recorded refutation) ---- *)
Lemma num_cmp_old_refuted :
  exists a b c, num_cmp_old a b = Eq /\ num_cmp_old b c = Eq /\ num_cmp_old a c <> Eq.
Proof.
  exists (NInt 9007199254740993), (NFloat 4845873199050653696), (NInt 9007199254740992).
  vm_compute. repeat split; discriminate.
Qed.
Lemma num_decode_old_refuted : num_decode_old [] = Panic /\ num_decode_old [NUMBER_FLOAT; 0] = Panic.
Proof. split; reflexivity. Qed.
