(* NumProofs.v — theorems about Num.v: totality of decoding, the order laws, refutation of the old order *)
From Coq Require Import List NArith ZArith Bool Lia.
Import ListNotations.
From JB Require Import Constants Bytes Num.
Open Scope N_scope.
Set Default Timeout 60.

(* ---- decoding never panics ---- *)
Lemma num_decode_total : forall bs, num_decode bs <> Panic.
Proof.
  intros [|ty rest]; cbn [num_decode]; [discriminate|].
  repeat match goal with
         | |- context [if ?c then _ else _] => destruct c
         | |- context [match ?l with O => _ | S _ => _ end] => destruct l
         end; discriminate.
Qed.

(* ---- the extended line is totally ordered ---- *)
Lemma ext_cmp_refl e : ext_cmp e e = Eq.
Proof. destruct e; cbn; try reflexivity. apply Z.compare_refl. Qed.

Lemma ext_cmp_antisym a b : ext_cmp a b = CompOpp (ext_cmp b a).
Proof. destruct a, b; cbn; try reflexivity. apply Z.compare_antisym. Qed.

Ltac zc := repeat match goal with
  | H : (_ ?= _)%Z = Eq |- _ => apply Z.compare_eq_iff in H
  | H : (_ ?= _)%Z = Lt |- _ => rewrite Z.compare_lt_iff in H
  | H : (_ ?= _)%Z = Gt |- _ => rewrite Z.compare_gt_iff in H
  | |- (_ ?= _)%Z = Eq => apply Z.compare_eq_iff
  | |- (_ ?= _)%Z = Lt => rewrite Z.compare_lt_iff
  | |- (_ ?= _)%Z = Gt => rewrite Z.compare_gt_iff end.

Lemma ext_cmp_trans a b c o : ext_cmp a b = o -> ext_cmp b c = o -> ext_cmp a c = o.
Proof.
  destruct a, b, c, o; cbn; intros H1 H2; try discriminate; try reflexivity; zc; lia.
Qed.

Lemma ext_cmp_eq_l a b c : ext_cmp a b = Eq -> ext_cmp b c = ext_cmp a c.
Proof.
  destruct a, b, c; cbn; intros H; try discriminate; try reflexivity. zc. subst. reflexivity.
Qed.
Lemma ext_cmp_eq_r a b c : ext_cmp b c = Eq -> ext_cmp a b = ext_cmp a c.
Proof.
  destruct a, b, c; cbn; intros H; try discriminate; try reflexivity. zc. subst. reflexivity.
Qed.

(* ---- Ord for Number: a total preorder whose equivalence is "same mathematical value" ---- *)
Lemma num_cmp_refl a : num_cmp a a = Eq.
Proof. apply ext_cmp_refl. Qed.
Lemma num_cmp_antisym a b : num_cmp a b = CompOpp (num_cmp b a).
Proof. apply ext_cmp_antisym. Qed.
Lemma num_cmp_trans a b c o : num_cmp a b = o -> num_cmp b c = o -> num_cmp a c = o.
Proof. apply ext_cmp_trans. Qed.
Lemma num_cmp_eq_l a b c : num_cmp a b = Eq -> num_cmp b c = num_cmp a c.
Proof. apply ext_cmp_eq_l. Qed.
Lemma num_cmp_eq_r a b c : num_cmp b c = Eq -> num_cmp a b = num_cmp a c.
Proof. apply ext_cmp_eq_r. Qed.
Lemma num_cmp_eq_iff a b : num_cmp a b = Eq <-> scaled a = scaled b.
Proof.
  unfold num_cmp. destruct (scaled a) as [|x| |], (scaled b) as [|y| |]; cbn; split; intros H;
    try discriminate; try reflexivity.
  - zc. subst. reflexivity.
  - inversion H. apply Z.compare_refl.
Qed.
(* NaN is greatest and equal to itself *)
Lemma num_cmp_nan_greatest a b : scaled b = ENaN -> scaled a <> ENaN -> num_cmp a b = Lt.
Proof. unfold num_cmp. intros ->. destruct (scaled a); cbn; intros H; try reflexivity. congruence. Qed.

(* a signed and an unsigned integer of the same value are equal *)
Lemma num_cmp_int_uint z : (0 <= z)%Z -> num_cmp (NInt z) (NUInt (Z.to_N z)) = Eq.
Proof. intros H. unfold num_cmp. cbn [scaled ext_cmp]. rewrite Z2N.id by exact H. apply Z.compare_refl. Qed.

(* integers are ordered as integers, whatever their signedness *)
Lemma two1074_pos : (0 < two1074)%Z.
Proof. unfold two1074. apply Z.pow_pos_nonneg; lia. Qed.
Lemma num_cmp_ints x y : num_cmp (NInt x) (NInt y) = (x ?= y)%Z.
Proof.
  unfold num_cmp. cbn [scaled ext_cmp]. pose proof two1074_pos.
  destruct (Z.compare_spec x y) as [->|Hl|Hg].
  - apply Z.compare_refl.
  - apply Z.compare_lt_iff. nia.
  - apply Z.compare_gt_iff. nia.
Qed.

(* ---- the order before the fix was not transitive (kept as the recorded refutation) ---- *)
Lemma num_cmp_old_refuted :
  exists a b c, num_cmp_old a b = Eq /\ num_cmp_old b c = Eq /\ num_cmp_old a c <> Eq.
Proof.
  exists (NInt 9007199254740993), (NFloat 4845873199050653696), (NInt 9007199254740992).
  vm_compute. repeat split; discriminate.
Qed.
Lemma num_decode_old_refuted : num_decode_old [] = Panic /\ num_decode_old [NUMBER_FLOAT; 0] = Panic.
Proof. split; reflexivity. Qed.

(* ---- every in-range number survives the compact codec exactly ---- *)
Lemma be_bytes_length k : forall n, length (be_bytes k n) = k.
Proof. induction k as [|k IH]; intros n; cbn [be_bytes]; [reflexivity|]. rewrite app_length, IH. cbn. lia. Qed.

Lemma rd_be_app a b acc : rd_be (a ++ b) acc = rd_be b (rd_be a acc).
Proof. revert acc. induction a as [|x a IH]; intros acc; cbn [app rd_be]; [reflexivity|]. apply IH. Qed.

Lemma rd_be_be_bytes k : forall n acc, rd_be (be_bytes k n) acc = acc * 256 ^ (N.of_nat k) + n mod 256 ^ (N.of_nat k).
Proof.
  induction k as [|k IH]; intros n acc.
  - cbn [be_bytes rd_be]. change (N.of_nat 0) with 0. rewrite N.pow_0_r, N.mod_1_r. lia.
  - cbn [be_bytes]. rewrite rd_be_app, IH. cbn [rd_be].
    rewrite Nat2N.inj_succ, N.pow_succ_r'.
    set (p := 256 ^ N.of_nat k). assert (Hp : p <> 0) by (unfold p; apply N.pow_nonzero; lia).
    rewrite N.mod_mul_r by lia. ring.
Qed.

Lemma rd_be_roundtrip k n : n < 256 ^ (N.of_nat k) -> rd_be (be_bytes k n) 0 = n.
Proof. intros H. rewrite rd_be_be_bytes. rewrite N.mod_small by exact H. lia. Qed.

Lemma width_ok_cases k : In k [1; 2; 4; 8]%nat -> width_ok k = true.
Proof. cbn. intros [<-|[<-|[<-|[<-|[]]]]]; reflexivity. Qed.

Lemma sext_twos k z : (0 < k)%nat ->
  (- 2 ^ (8 * Z.of_nat k - 1) <= z < 2 ^ (8 * Z.of_nat k - 1))%Z -> sext k (twos k z) = z.
Proof.
  intros Hk Hz. unfold sext, twos. set (m := (2 ^ (8 * Z.of_nat k))%Z).
  assert (Hm : (m = 2 * 2 ^ (8 * Z.of_nat k - 1))%Z).
  { unfold m. replace (8 * Z.of_nat k)%Z with (1 + (8 * Z.of_nat k - 1))%Z at 1 by lia.
    rewrite Z.pow_add_r by lia. reflexivity. }
  assert (Hpos : (0 < 2 ^ (8 * Z.of_nat k - 1))%Z) by (apply Z.pow_pos_nonneg; lia).
  rewrite Z2N.id by (apply Z.mod_pos_bound; lia).
  assert (Hhalf : (m / 2 = 2 ^ (8 * Z.of_nat k - 1))%Z).
  { rewrite Hm. rewrite (Z.mul_comm 2). apply Z.div_mul. lia. }
  rewrite Hhalf.
  destruct (Z.ltb_spec (z mod m) (2 ^ (8 * Z.of_nat k - 1))) as [Hlt|Hge].
  - destruct (Z.lt_ge_cases z 0) as [Hn|Hn].
    + exfalso. rewrite <- (Z.mod_unique z m (-1) (z + m)) in Hlt; lia.
    + rewrite Z.mod_small in *; lia.
  - destruct (Z.lt_ge_cases z 0) as [Hn|Hn].
    + rewrite <- (Z.mod_unique z m (-1) (z + m)); lia.
    + exfalso. rewrite Z.mod_small in Hge; lia.
Qed.

Lemma int_width_range z : let k := int_width z in
  In k [1; 2; 4; 8]%nat /\
  ((- two63 <=? z) && (z <? two63) = true -> - 2 ^ (8 * Z.of_nat k - 1) <= z < 2 ^ (8 * Z.of_nat k - 1))%Z.
Proof.
  unfold int_width, CE_INT_FITS1, CE_INT_FITS2, CE_INT_FITS3, CE_INT_W1, CE_INT_W2, CE_INT_W3, CE_INT_W4, two63.
  repeat match goal with |- context [if ?c then _ else _] => destruct c eqn:? end; cbn [In]; split; auto 10; intros H.
  all: repeat match goal with H : (_ && _)%bool = true |- _ => apply andb_true_iff in H; destruct H end.
  all: repeat match goal with H : (_ <=? _)%Z = true |- _ => apply Z.leb_le in H | H : (_ <? _)%Z = true |- _ => apply Z.ltb_lt in H end.
  all: cbn; lia.
Qed.
Lemma uint_width_range n : let k := uint_width n in
  In k [1; 2; 4; 8]%nat /\ (n <? two64 = true -> n < 256 ^ N.of_nat k).
Proof.
  unfold uint_width, CE_UINT_FITS1, CE_UINT_FITS2, CE_UINT_FITS3, CE_UINT_W1, CE_UINT_W2, CE_UINT_W3, CE_UINT_W4, two64.
  repeat match goal with |- context [if ?c then _ else _] => destruct c eqn:? end; cbn [In]; split; auto 10; intros H.
  all: repeat match goal with H : (_ <=? _) = true |- _ => apply N.leb_le in H | H : (_ <? _) = true |- _ => apply N.ltb_lt in H end.
  all: cbn; lia.
Qed.

Theorem num_roundtrip n : num_in_range n = true -> num_decode (compact_encode n) = Ok (normalise_num n).
Proof.
  destruct n as [z|u|b]; cbn [num_in_range compact_encode normalise_num]; unfold CE_INT_ZERO, CE_UINT_ZERO; intros Hr.
  - destruct (z =? 0)%Z eqn:Ez; [reflexivity|].
    destruct (int_width_range z) as [Hin Hrange]. specialize (Hrange Hr).
    cbn [num_decode]. rewrite be_bytes_length.
    change (NUMBER_INT =? NUMBER_ZERO) with false. change (NUMBER_INT =? NUMBER_NAN) with false.
    change (NUMBER_INT =? NUMBER_INF) with false. change (NUMBER_INT =? NUMBER_NEG_INF) with false.
    change (NUMBER_INT =? NUMBER_INT) with true. cbv iota.
    rewrite (width_ok_cases _ Hin).
    assert (Hk : (0 < int_width z)%nat) by (cbn [In] in Hin; destruct Hin as [<-|[<-|[<-|[<-|[]]]]]; lia).
    rewrite rd_be_roundtrip.
    + rewrite sext_twos by assumption. reflexivity.
    + unfold twos. set (k := int_width z) in *.
      assert (P : (0 <= z mod 2 ^ (8 * Z.of_nat k) < 2 ^ (8 * Z.of_nat k))%Z) by (apply Z.mod_pos_bound; apply Z.pow_pos_nonneg; lia).
      replace (256 ^ N.of_nat k) with (Z.to_N (2 ^ (8 * Z.of_nat k))).
      * apply Z2N.inj_lt; lia.
      * change 256 with (2 ^ 8). rewrite <- N.pow_mul_r. rewrite Z2N.inj_pow by lia. f_equal. lia.
  - destruct (u =? 0) eqn:Eu; [apply N.eqb_eq in Eu; subst u; reflexivity|].
    destruct (uint_width_range u) as [Hin Hrange]. specialize (Hrange Hr).
    cbn [num_decode]. rewrite be_bytes_length.
    change (NUMBER_UINT =? NUMBER_ZERO) with false. change (NUMBER_UINT =? NUMBER_NAN) with false.
    change (NUMBER_UINT =? NUMBER_INF) with false. change (NUMBER_UINT =? NUMBER_NEG_INF) with false.
    change (NUMBER_UINT =? NUMBER_INT) with false. change (NUMBER_UINT =? NUMBER_UINT) with true. cbv iota.
    rewrite (width_ok_cases _ Hin). rewrite rd_be_roundtrip by exact Hrange. reflexivity.
  - destruct (f_is_nan b) eqn:En; [reflexivity|].
    destruct (f_is_inf b) eqn:Ei.
    + destruct (f_sign b) eqn:Es; cbn.
      * (* -inf: the pattern is exactly F_NEG_INF *)
        unfold f_is_inf, f_is_nan, f_sign, f_exp, f_man, two52 in *. apply andb_true_iff in Ei. destruct Ei as [E1 E2].
        apply N.eqb_eq in E1, E2. apply N.leb_le in Es. apply N.ltb_lt in Hr. unfold two64 in Hr.
        f_equal. f_equal. unfold F_NEG_INF.
        pose proof (N.div_mod b 4503599627370496). pose proof (N.div_mod (b / 4503599627370496) 2048).
        assert (b / 4503599627370496 < 4096) by (apply N.div_lt_upper_bound; lia).
        assert (b / 4503599627370496 / 2048 < 2) by (apply N.div_lt_upper_bound; lia).
        assert (b / 4503599627370496 / 2048 = 1 \/ b / 4503599627370496 / 2048 = 0) by lia. lia.
      * unfold f_is_inf, f_is_nan, f_sign, f_exp, f_man, two52 in *. apply andb_true_iff in Ei. destruct Ei as [E1 E2].
        apply N.eqb_eq in E1, E2. apply N.leb_gt in Es.
        f_equal. f_equal. unfold F_INF.
        pose proof (N.div_mod b 4503599627370496). pose proof (N.div_mod (b / 4503599627370496) 2048).
        assert (b / 4503599627370496 < 2048) by (apply N.div_lt_upper_bound; lia).
        assert (b / 4503599627370496 / 2048 = 0) by (apply N.div_small; lia). lia.
    + cbn [num_decode]. rewrite be_bytes_length.
      change (NUMBER_FLOAT =? NUMBER_ZERO) with false. change (NUMBER_FLOAT =? NUMBER_NAN) with false.
      change (NUMBER_FLOAT =? NUMBER_INF) with false. change (NUMBER_FLOAT =? NUMBER_NEG_INF) with false.
      change (NUMBER_FLOAT =? NUMBER_INT) with false. change (NUMBER_FLOAT =? NUMBER_UINT) with false.
      change (NUMBER_FLOAT =? NUMBER_FLOAT) with true. cbv iota.
      rewrite rd_be_roundtrip; [reflexivity|]. apply N.ltb_lt in Hr. exact Hr.
Qed.

(* shortest form: the payload length is the minimal width able to hold the number *)
Lemma compact_encode_shortest_uint u : u <> 0 -> u < two64 ->
  length (compact_encode (NUInt u)) = S (uint_width u) /\
  (forall k, In k [1; 2; 4; 8]%nat -> u < 256 ^ N.of_nat k -> (uint_width u <= k)%nat).
Proof.
  intros Hu Hr. cbn [compact_encode]. unfold CE_UINT_ZERO. apply N.eqb_neq in Hu. rewrite Hu. cbn [length]. rewrite be_bytes_length. split; [reflexivity|].
  intros k Hk Hlt. unfold uint_width, CE_UINT_FITS1, CE_UINT_FITS2, CE_UINT_FITS3, CE_UINT_W1, CE_UINT_W2, CE_UINT_W3, CE_UINT_W4.
  repeat match goal with |- context [if ?c then _ else _] => destruct c eqn:? end;
    repeat match goal with H : (_ <=? _) = false |- _ => apply N.leb_gt in H end;
    cbn [In] in Hk; destruct Hk as [<-|[<-|[<-|[<-|[]]]]]; cbn in Hlt; lia.
Qed.
