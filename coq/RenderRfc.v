(* RenderRfc.v — C03: both renderings of a document are RFC 8259 texts (derivable in the relaxation-free declarative
   grammar rfc_text of JsonGrammar.v, written from the RFC independently of the parser) whose denotation is the
   document.  The float printer (ryu) is a parameter; what is needed of it is stated per float occurring in the
   document: its text is an RFC number token denoting that float (rfc_float_text). *)
From Coq Require Import List NArith ZArith Bool Lia.
Import ListNotations.
From JB Require Import Constants Bytes Utf8 Num Value Decimal JsonText Order Render MiscProofs OrderProofs RoundtripProofs
  SerdeProofs TextRoundtrip JsonGrammar JsonGrammarProofs.
Open Scope N_scope.
Set Default Timeout 300.

(* ---------------------------------------------------------------- strings: one byte and its escape, in the grammar *)
Inductive esc_rfc (b : N) : Prop :=
| er_plain : escape_byte b = [b] -> 32 <= b -> b <> 34 -> b <> 92 -> esc_rfc b
| er_short x : escape_byte b = [92; x] -> short_escape x = Some b -> esc_rfc b
| er_u4 h1 h2 : escape_byte b = [92; 117; 48; 48; h1; h2] -> hex4 [48; 48; h1; h2] = Some b ->
    is_high b = false -> is_low b = false -> utf8_encode b = [b] ->
    (h1 =? 92) || (h1 =? 34) || (h2 =? 92) || (h2 =? 34) = false -> esc_rfc b.

Lemma escape_byte_rfc b : b < 256 -> esc_rfc b.
Proof.
  intros Hb. destruct (N.lt_ge_cases b 32) as [Hc|Hc].
  - assert (Hin : In b (map N.of_nat (seq 0 32))) by (apply (in_seq_N b 0 32); cbn; lia).
    cbn in Hin.
    repeat (destruct Hin as [<-|Hin];
            [first [ eapply er_short; [reflexivity|reflexivity]
                   | eapply er_u4; reflexivity ]|]).
    destruct Hin.
  - destruct (N.eq_dec b 34) as [->|N34]; [eapply er_short; reflexivity|].
    destruct (N.eq_dec b 92) as [->|N92]; [eapply er_short; reflexivity|].
    apply er_plain; [|exact Hc|exact N34|exact N92].
    apply other_bytes_copied; [apply (in_seq_N b 32 224); cbn; lia|exact N34|exact N92].
Qed.

(* the escaped text of a byte string is an RFC string body (no raw control character, no bare quote or backslash, only
   the two-character escapes and \u00XX) denoting that byte string *)
Lemma escaped_body_rfc s : bytes_ok s -> rfc_string_body (flat_map escape_byte s) s.
Proof.
  induction 1 as [|b s Hb Hs IH]; cbn [flat_map]; [constructor|].
  destruct (escape_byte_rfc b Hb) as [E H32 N34 N92|x E Hx|h1 h2 E Hh Hhi Hlo Hu]; rewrite E.
  - cbn [app]. apply RB_raw; assumption.
  - cbn [app]. apply RB_short; assumption.
  - change ([92; 117; 48; 48; h1; h2] ++ flat_map escape_byte s) with (92 :: 117 :: [48; 48; h1; h2] ++ flat_map escape_byte s).
    change (b :: s) with ([b] ++ s). rewrite <- Hu. apply RB_unicode; assumption.
Qed.

Theorem escape_string_rfc s : bytes_ok s -> utf8_valid s = true -> rfc_string (escape_string s) s.
Proof.
  intros Hs Hu. unfold escape_string. pose proof (escaped_body_rfc s Hs) as B. apply RStr; [exact B|].
  rewrite (body_utf8 _ _ (rfc_body_jbody _ _ B)). exact Hu.
Qed.

Lemma bytes_okb_ok s : bytes_okb s = true -> bytes_ok s.
Proof.
  unfold bytes_okb, bytes_ok. rewrite forallb_forall. intros H. apply Forall_forall. intros x Hx. apply N.ltb_lt. apply H. exact Hx.
Qed.

(* ---------------------------------------------------------------- integers: the itoa model prints RFC int tokens *)
Lemma jint_dec_digits n : n < two64 -> jint (dec_digits n).
Proof.
  intros Hn. destruct (dec_digits_spec n Hn) as (Hd & _ & H0 & Hp).
  destruct (N.eq_dec n 0) as [E0|E0]; [rewrite (H0 E0); constructor|].
  destruct Hp as (d & r & E & Hd48); [lia|]. rewrite E in *. inversion Hd; subst. apply Int_nonzero; assumption.
Qed.

Lemma jnumber_uint n : n < two64 -> jnumber (dec_digits n) (NUInt n).
Proof.
  intros Hn. pose proof (Number false (dec_digits n) [] [] [] 0%Z (jint_dec_digits n Hn) Frac_none Exp_none) as J.
  cbn [app] in J. rewrite app_nil_r in J. unfold number_value in J.
  destruct (dec_digits_spec n Hn) as (_ & Hv & _ & _). rewrite Hv in J.
  replace (Z.of_N n <? Z.of_N two64)%Z with true in J by (symmetry; apply Z.ltb_lt; lia).
  rewrite N2Z.id in J. exact J.
Qed.

Lemma jnumber_negint z : (- two63 <= z < 0)%Z -> jnumber (dec_Z z) (NInt z).
Proof.
  intros Hz. unfold dec_Z. replace (z <? 0)%Z with true by (symmetry; apply Z.ltb_lt; lia).
  assert (Hn : Z.to_N (- z) < two64) by (unfold two64, two63 in *; lia).
  pose proof (Number true (dec_digits (Z.to_N (- z))) [] [] [] 0%Z (jint_dec_digits _ Hn) Frac_none Exp_none) as J.
  cbn [app] in J. rewrite app_nil_r in J. unfold number_value in J.
  destruct (dec_digits_spec _ Hn) as (_ & Hv & _ & _). rewrite Hv, Z2N.id in J by lia.
  replace (- z <=? two63)%Z with true in J by (symmetry; apply Z.leb_le; lia).
  rewrite Z.opp_involutive in J. exact J.
Qed.

(* ---------------------------------------------------------------- what is asked of the float printer *)
(* pf b is an RFC 8259 number token (minus? int frac? exp?) whose denotation (the nearest double) is b *)
Definition rfc_float_text (pf : N -> list N) (b : N) : Prop := jnumber (pf b) (NFloat b).

Theorem number_text_rfc pf n : num_in_range n = true -> (forall b, n = NFloat b -> rfc_float_text pf b) ->
  jnumber (number_text pf n) (unsign_num n).
Proof.
  intros Hr Hf. destruct n as [z|u|b]; cbn [number_text unsign_num].
  - cbn [num_in_range] in Hr. apply andb_true_iff in Hr. destruct Hr as [R1 R2]. apply Z.leb_le in R1. apply Z.ltb_lt in R2.
    destruct (z <? 0)%Z eqn:Ez; [apply Z.ltb_lt in Ez; apply jnumber_negint; lia|apply Z.ltb_ge in Ez].
    unfold dec_Z. replace (z <? 0)%Z with false by (symmetry; apply Z.ltb_ge; lia).
    apply jnumber_uint. unfold two64, two63 in *. lia.
  - cbn [num_in_range] in Hr. apply N.ltb_lt in Hr. apply jnumber_uint. exact Hr.
  - apply Hf. reflexivity.
Qed.

(* ---------------------------------------------------------------- white space of the pretty form *)
Lemma rfc_ws_app w1 w2 : rfc_ws w1 -> rfc_ws w2 -> rfc_ws (w1 ++ w2).
Proof. induction 1; cbn [app]; [auto|]. intros. constructor; auto. Qed.
Lemma rfc_ws_indent k : rfc_ws (indent k).
Proof. unfold indent. induction k as [|k IH]; cbn [repeat]; constructor; auto. Qed.
Lemma rfc_ws_lf w : rfc_ws w -> rfc_ws (10 :: w).
Proof. intros. constructor; auto. Qed.

(* a key-sorted member list is the map it denotes *)
Lemma assoc_of_list_sorted_gen {V} (l : list (list N * V)) : forall acc, strongly_sorted l ->
  Forall (fun a => Forall (fun kv => bytes_cmp (fst a) (fst kv) = Lt) l) acc ->
  fold_left (fun acc kv => assoc_insert (fst kv) (snd kv) acc) l acc = acc ++ l.
Proof.
  induction l as [|[k v] l IH]; intros acc HS HA; cbn [fold_left]; [rewrite app_nil_r; reflexivity|].
  destruct HS as [HS1 HS2]. cbn [fst snd]. rewrite assoc_insert_append.
  - rewrite IH; [rewrite <- app_assoc; reflexivity|exact HS2|]. apply Forall_app. split.
    + eapply Forall_impl; [|exact HA]. intros a Ha. inversion Ha; subst. assumption.
    + constructor; [exact HS1|constructor].
  - eapply Forall_impl; [|exact HA]. intros a Ha. inversion Ha as [|? ? Hak _]; subst. cbn [fst] in Hak.
    rewrite bytes_antisym, Hak. reflexivity.
Qed.
Lemma assoc_of_list_sorted {V} (l : list (list N * V)) : strongly_sorted l -> assoc_of_list l = l.
Proof. intros H. unfold assoc_of_list. rewrite assoc_of_list_sorted_gen; [reflexivity|exact H|constructor]. Qed.
Lemma strongly_sorted_map {V W} (f : V -> W) (l : list (list N * V)) :
  strongly_sorted l -> strongly_sorted (map (fun kv => (fst kv, f (snd kv))) l).
Proof.
  induction l as [|[k v] l IH]; cbn [map strongly_sorted]; [auto|]. intros [H1 H2]. split; [|apply IH; exact H2].
  apply Forall_forall. intros kv Hkv. apply in_map_iff in Hkv. destruct Hkv as (kv0 & <- & Hin). cbn [fst].
  rewrite Forall_forall in H1. apply H1. exact Hin.
Qed.

(* the floats occurring in a document (bit patterns), and "all numbers are finite" *)
Fixpoint floats_of (v : value) : list N :=
  match v with
  | VNum (NFloat b) => [b]
  | VArr l => flat_map floats_of l
  | VObj o => flat_map (fun kv => floats_of (snd kv)) o
  | _ => []
  end.
Definition finite_float (b : N) : bool := negb (f_is_nan b) && negb (f_is_inf b).
Definition finite_numbers (v : value) : bool := forallb finite_float (floats_of v).

(* ---------------------------------------------------------------- whole values *)
Section Rfc.
  Variable pf : N -> list N.
  Variable pretty : bool.

  Lemma rfc_pad k : rfc_ws (pad pretty k).
  Proof. unfold pad. destruct pretty; [apply rfc_ws_indent|constructor]. Qed.
  Lemma rfc_closing k : rfc_ws (closing pretty k).
  Proof. unfold closing. destruct pretty; [apply rfc_ws_lf; apply rfc_ws_indent|constructor]. Qed.
  Lemma opening_rfc c : exists w, opening pretty c = c :: w /\ rfc_ws w.
  Proof. unfold opening. destruct pretty; [exists [10]|exists []]; split; try reflexivity; try (apply RWS_char; [auto|]); constructor. Qed.
  Lemma sep_rfc : exists w, sep pretty = 44 :: w /\ rfc_ws w.
  Proof. unfold sep. destruct pretty; [exists [10]|exists []]; split; try reflexivity; try (apply RWS_char; [auto|]); constructor. Qed.
  Lemma colon_rfc : exists w, colon pretty = 58 :: w /\ rfc_ws w.
  Proof. unfold colon. destruct pretty; [exists [32]|exists []]; split; try reflexivity; try (apply RWS_char; [auto|]); constructor. Qed.

  (* the elements of an array after the opening bracket (and its line break) up to the closing bracket *)
  Lemma elements_rfc ind : forall r x w0, rfc_ws w0 ->
    (forall y, In y (x :: r) -> rfc_value (render pf pretty (ind + 2) y) (unsign y)) ->
    rfc_elements (w0 ++ pad pretty (ind + 2) ++ render pf pretty (ind + 2) x ++ ritems pf pretty ind false r ++ closing pretty ind)
                 (map unsign (x :: r)).
  Proof.
    induction r as [|x' r IH]; intros x w0 Hw0 Hall.
    - cbn [ritems app map]. apply REs_one. rewrite app_assoc.
      apply RElem; [apply rfc_ws_app; [exact Hw0|apply rfc_pad]|apply Hall; left; reflexivity|apply rfc_closing].
    - rewrite ritems_cons. destruct sep_rfc as (ws & -> & Hws).
      replace (w0 ++ pad pretty (ind + 2) ++ render pf pretty (ind + 2) x ++
               ((44 :: ws) ++ pad pretty (ind + 2) ++ render pf pretty (ind + 2) x' ++ ritems pf pretty ind false r) ++ closing pretty ind)
        with (((w0 ++ pad pretty (ind + 2)) ++ render pf pretty (ind + 2) x ++ []) ++
              44 :: (ws ++ pad pretty (ind + 2) ++ render pf pretty (ind + 2) x' ++ ritems pf pretty ind false r ++ closing pretty ind))
        by (rewrite app_nil_r; cbn [app]; repeat rewrite <- app_assoc; cbn [app]; reflexivity).
      change (map unsign (x :: x' :: r)) with (unsign x :: map unsign (x' :: r)).
      apply REs_cons.
      + apply RElem; [apply rfc_ws_app; [exact Hw0|apply rfc_pad]|apply Hall; left; reflexivity|constructor].
      + apply IH; [exact Hws|]. intros y Hy. apply Hall. right. exact Hy.
  Qed.

  Definition member_ok (ind : nat) (kv : list N * value) : Prop :=
    bytes_ok (fst kv) /\ utf8_valid (fst kv) = true /\ rfc_value (render pf pretty (ind + 2) (snd kv)) (unsign (snd kv)).

  Lemma members_rfc ind : forall r k x w0, rfc_ws w0 ->
    (forall kv, In kv ((k, x) :: r) -> member_ok ind kv) ->
    rfc_members (w0 ++ pad pretty (ind + 2) ++ escape_string k ++ colon pretty ++ render pf pretty (ind + 2) x ++
                 rmembers pf pretty ind false r ++ closing pretty ind)
                (unsign_members ((k, x) :: r)).
  Proof.
    induction r as [|[k' x'] r IH]; intros k x w0 Hw0 Hall; destruct colon_rfc as (wc & -> & Hwc);
      destruct (Hall (k, x) (or_introl eq_refl)) as (Hkb & Hku & Hx); cbn [fst snd] in Hkb, Hku, Hx.
    - cbn [rmembers app]. unfold unsign_members. cbn [map fst snd].
      replace (w0 ++ pad pretty (ind + 2) ++ escape_string k ++ 58 :: wc ++ render pf pretty (ind + 2) x ++ closing pretty ind)
        with (((w0 ++ pad pretty (ind + 2)) ++ escape_string k ++ []) ++ 58 :: (wc ++ render pf pretty (ind + 2) x ++ closing pretty ind))
        by (rewrite app_nil_r; repeat rewrite <- app_assoc; cbn [app]; reflexivity).
      apply RMs_one.
      + apply RKey; [apply rfc_ws_app; [exact Hw0|apply rfc_pad]|apply escape_string_rfc; assumption|constructor].
      + apply RElem; [exact Hwc|exact Hx|apply rfc_closing].
    - rewrite rmembers_cons. destruct sep_rfc as (ws & -> & Hws). unfold unsign_members. cbn [map fst snd].
      replace (w0 ++ pad pretty (ind + 2) ++ escape_string k ++ (58 :: wc) ++ render pf pretty (ind + 2) x ++
               ((44 :: ws) ++ pad pretty (ind + 2) ++ escape_string k' ++ colon pretty ++ render pf pretty (ind + 2) x' ++
                rmembers pf pretty ind false r) ++ closing pretty ind)
        with (((w0 ++ pad pretty (ind + 2)) ++ escape_string k ++ []) ++ 58 :: (wc ++ render pf pretty (ind + 2) x ++ []) ++
              44 :: (ws ++ pad pretty (ind + 2) ++ escape_string k' ++ colon pretty ++ render pf pretty (ind + 2) x' ++
                     rmembers pf pretty ind false r ++ closing pretty ind))
        by (rewrite !app_nil_r; cbn [app]; repeat rewrite <- app_assoc; cbn [app]; reflexivity).
      apply RMs_cons.
      + apply RKey; [apply rfc_ws_app; [exact Hw0|apply rfc_pad]|apply escape_string_rfc; assumption|constructor].
      + apply RElem; [exact Hwc|exact Hx|constructor].
      + apply (IH k' x' ws Hws). intros kv Hkv. apply Hall. right. exact Hkv.
  Qed.

  (* B1: the rendering of a document, at any indentation, is an RFC 8259 value denoting the document *)
  Theorem render_rfc_value : forall v, wf_shape v = true -> (forall b, In b (floats_of v) -> rfc_float_text pf b) ->
    forall ind, rfc_value (render pf pretty ind v) (unsign v).
  Proof.
    induction v as [|b|s|n|l IH|o IH] using value_ind2; intros Hw Hn ind.
    - constructor.
    - destruct b; constructor.
    - cbn [wf_shape] in Hw. apply andb_true_iff in Hw. destruct Hw as [Hb Hu]. cbn [render unsign].
      apply RV_string. apply escape_string_rfc; [apply bytes_okb_ok; exact Hb|exact Hu].
    - cbn [render unsign]. apply RV_number. apply number_text_rfc; [exact Hw|].
      intros b ->. apply Hn. left. reflexivity.
    - rewrite TextRoundtrip.render_arr. destruct (opening_rfc 91) as (wo & -> & Hwo).
      cbn [wf_shape] in Hw. cbn [floats_of] in Hn. rewrite forallb_forall in Hw. rewrite Forall_forall in IH.
      cbn [unsign]. destruct l as [|x r].
      + cbn [ritems map app]. rewrite app_assoc.
        apply RV_empty_array. apply rfc_ws_app; [exact Hwo|apply rfc_closing].
      + rewrite ritems_cons.
        replace ((91 :: wo) ++ ([] ++ pad pretty (ind + 2) ++ render pf pretty (ind + 2) x ++ ritems pf pretty ind false r) ++ closing pretty ind ++ [93])
          with (91 :: (wo ++ pad pretty (ind + 2) ++ render pf pretty (ind + 2) x ++ ritems pf pretty ind false r ++ closing pretty ind) ++ [93])
          by (cbn [app]; repeat rewrite <- app_assoc; reflexivity).
        apply RV_array. apply elements_rfc; [exact Hwo|].
        intros y Hy. apply IH; [exact Hy|apply Hw; exact Hy|].
        intros b Hb. apply Hn. apply in_flat_map. exists y. split; assumption.
    - rewrite TextRoundtrip.render_obj. destruct (opening_rfc 123) as (wo & -> & Hwo).
      cbn [wf_shape] in Hw. apply andb_true_iff in Hw. destruct Hw as [Hs Hw].
      cbn [floats_of] in Hn. rewrite forallb_forall in Hw. rewrite Forall_forall in IH.
      cbn [unsign]. destruct o as [|[k x] r].
      + cbn [rmembers map app]. rewrite app_assoc.
        apply RV_empty_object. apply rfc_ws_app; [exact Hwo|apply rfc_closing].
      + rewrite rmembers_cons.
        replace ((123 :: wo) ++ ([] ++ pad pretty (ind + 2) ++ escape_string k ++ colon pretty ++ render pf pretty (ind + 2) x ++
                                 rmembers pf pretty ind false r) ++ closing pretty ind ++ [125])
          with (123 :: (wo ++ pad pretty (ind + 2) ++ escape_string k ++ colon pretty ++ render pf pretty (ind + 2) x ++
                        rmembers pf pretty ind false r ++ closing pretty ind) ++ [125])
          by (cbn [app]; repeat rewrite <- app_assoc; reflexivity).
        change (map (fun kv : list N * value => (fst kv, unsign (snd kv))) ((k, x) :: r)) with (unsign_members ((k, x) :: r)).
        rewrite <- (assoc_of_list_sorted (unsign_members ((k, x) :: r)))
          by (apply strongly_sorted_map; apply keys_sorted_strong; exact Hs).
        apply RV_object. apply members_rfc; [exact Hwo|].
        intros kv Hkv. specialize (Hw kv Hkv). apply andb_true_iff in Hw. destruct Hw as [Hw Hwx].
        apply andb_true_iff in Hw. destruct Hw as [Hkb Hku].
        split; [apply bytes_okb_ok; exact Hkb|]. split; [exact Hku|].
        apply (IH kv Hkv); [exact Hwx|].
        intros b Hb. apply Hn. apply in_flat_map. exists kv. split; assumption.
  Qed.

  Theorem render_rfc_text v : wf_shape v = true -> (forall b, In b (floats_of v) -> rfc_float_text pf b) ->
    rfc_text (render pf pretty 0 v) (unsign v).
  Proof.
    intros Hw Hn. unfold rfc_text.
    replace (render pf pretty 0 v) with ([] ++ render pf pretty 0 v ++ []) by (cbn [app]; apply app_nil_r).
    apply RElem; [constructor|apply render_rfc_value; assumption|constructor].
  Qed.
End Rfc.

(* ---------------------------------------------------------------- B1 as the property states it *)
(* every valid document whose numbers are finite: both renderings are RFC 8259 texts denoting the document
   (non-negative integers as the unsigned integers the text denotes: `unsign`, equal under compare) *)
Theorem rendering_is_rfc8259 pf pretty v : wf_shape v = true -> finite_numbers v = true ->
  (forall b, In b (floats_of v) -> rfc_float_text pf b) ->
  rfc_text (render pf pretty 0 v) (unsign v) /\ cmp_value (unsign v) v = Eq.
Proof. intros Hw _ Hf. split; [apply render_rfc_text; assumption|apply unsign_equal]. Qed.

(* hence the library's own reader, and any reader that accepts RFC 8259 with these denotations, reads the document back *)
Corollary rendering_parses_back pf pretty v : wf_shape v = true -> (forall b, In b (floats_of v) -> rfc_float_text pf b) ->
  parse_value (render pf pretty 0 v) = Ok (unsign v).
Proof. intros Hw Hf. apply rfc_complete. apply render_rfc_text; assumption. Qed.

(* the boolean form of the float side condition used by TextRoundtrip.v *)
Lemma floats_ok_in ok v : floats_ok ok v = true -> forall b, In b (floats_of v) -> ok b = true.
Proof.
  induction v as [|b0|s|n|l IH|o IH] using value_ind2; cbn [floats_ok floats_of]; intros H b Hb; try destruct Hb.
  - destruct n as [z|u|b1]; cbn [In] in Hb; try destruct Hb as [<-|[]]; try destruct Hb. exact H.
  - apply in_flat_map in Hb. destruct Hb as (x & Hx & Hb). rewrite forallb_forall in H. rewrite Forall_forall in IH. eapply IH; eauto.
  - apply in_flat_map in Hb. destruct Hb as (x & Hx & Hb). rewrite forallb_forall in H. rewrite Forall_forall in IH. eapply (IH x); eauto.
Qed.

(* the hypothesis on the printer is satisfiable: 1.5 printed as "1.5" is an RFC number denoting the double 0x3FF8000000000000 *)
Example rfc_float_text_example : rfc_float_text (fun _ => [49; 46; 53]) 4609434218613702656.
Proof.
  unfold rfc_float_text.
  assert (J : jnumber ([] ++ [49] ++ [46; 53] ++ []) (number_value false [49] [46; 53] [] [53] 0%Z)).
  { apply (Number false [49] [46; 53] [53] [] 0%Z).
    - apply Int_nonzero; [reflexivity|discriminate|constructor].
    - apply Frac_some; [discriminate|constructor; [reflexivity|constructor]].
    - apply Exp_none. }
  cbn [app] in J. replace (number_value false [49] [46; 53] [] [53] 0) with (NFloat 4609434218613702656) in J by (vm_compute; reflexivity).
  exact J.
Qed.

(* ---------------------------------------------------------------- B2: what the byte walker prints *)
From JB Require Import Codec DispatchProofs TreeWf RenderWalk RenderWalkProofs.

Lemma floats_normalise v : (forall b, In b (floats_of v) -> f_is_nan b = false) -> floats_of (normalise v) = floats_of v.
Proof.
  induction v as [|b0|s|n|l IH|o IH] using value_ind2; cbn [normalise floats_of]; intros H; try reflexivity.
  - destruct n as [z|u|b1]; cbn [normalise_num]; try reflexivity.
    + destruct (z =? 0)%Z; reflexivity.
    + rewrite (H b1) by (left; reflexivity). reflexivity.
  - rewrite flat_map_concat_map, map_map, <- flat_map_concat_map.
    rewrite Forall_forall in IH. induction l as [|x l IHl]; cbn [flat_map]; [reflexivity|]. f_equal.
    + apply IH; [left; reflexivity|]. intros b Hb. apply H. cbn [flat_map]. apply in_or_app. left. exact Hb.
    + apply IHl; [intros y Hy; apply IH; right; exact Hy|]. intros b Hb. apply H. cbn [flat_map]. apply in_or_app. right. exact Hb.
  - rewrite flat_map_concat_map, map_map, <- flat_map_concat_map. cbn [snd].
    rewrite Forall_forall in IH. induction o as [|x o IHo]; cbn [flat_map]; [reflexivity|]. f_equal.
    + apply (IH x); [left; reflexivity|]. intros b Hb. apply H. cbn [flat_map]. apply in_or_app. left. exact Hb.
    + apply IHo; [intros y Hy; apply IH; right; exact Hy|]. intros b Hb. apply H. cbn [flat_map]. apply in_or_app. right. exact Hb.
Qed.

Lemma finite_not_nan v : finite_numbers v = true -> forall b, In b (floats_of v) -> f_is_nan b = false.
Proof.
  unfold finite_numbers. rewrite forallb_forall. intros H b Hb. specialize (H b Hb). unfold finite_float in H.
  apply andb_true_iff in H. destruct H as [H _]. apply negb_true_iff in H. exact H.
Qed.

Lemma wfb_shape v : wfb v = true -> wf_shape v = true.
Proof. unfold wfb. intros H. apply andb_true_iff in H. apply H. Qed.

Section Walker.
  Variable pf : N -> list N.
  Variable v : value.
  Hypothesis Hwf : wfb v = true.
  Hypothesis Htop : top_ok v.
  Hypothesis Hfin : finite_numbers v = true.
  Hypothesis Hpf : forall b, In b (floats_of v) -> rfc_float_text pf b.

  (* the document the renderings denote: the stored document with the representation changes of decoding (normalise:
     -0 as an integer, canonical NaN) and of reading integers from text (unsign); equal to v under compare *)
  Definition denoted : value := unsign (normalise v).
  Lemma denoted_equal : cmp_value denoted v = Eq.
  Proof. unfold denoted. eapply cmp_value_trans; [apply unsign_equal|apply normalise_equal]. Qed.

  Lemma norm_floats : forall b, In b (floats_of (normalise v)) -> rfc_float_text pf b.
  Proof. rewrite (floats_normalise v (finite_not_nan v Hfin)). exact Hpf. Qed.

  Theorem to_string_rfc : exists t, to_string_w' pf (enc v) = Ok t /\ rfc_text t denoted.
  Proof.
    exists (to_string_t pf (normalise v)). split; [apply to_string_w_enc; assumption|].
    apply render_rfc_text; [apply wf_normalise; apply wfb_shape; exact Hwf|exact norm_floats].
  Qed.
  Theorem to_pretty_string_rfc : exists t, to_pretty_string_w' pf (enc v) = Ok t /\ rfc_text t denoted.
  Proof.
    exists (to_pretty_string_t pf (normalise v)). split; [apply to_pretty_string_w_enc; assumption|].
    apply render_rfc_text; [apply wf_normalise; apply wfb_shape; exact Hwf|exact norm_floats].
  Qed.

  (* both at once: what to_string and to_pretty_string print for a valid document are two RFC 8259 texts of one and the
     same document, which is the original one *)
  Theorem renderings_rfc : exists tc tp,
    to_string_w' pf (enc v) = Ok tc /\ to_pretty_string_w' pf (enc v) = Ok tp /\
    rfc_text tc denoted /\ rfc_text tp denoted /\ cmp_value denoted v = Eq /\
    parse_value tc = Ok denoted /\ parse_value tp = Ok denoted.
  Proof.
    destruct to_string_rfc as (tc & E1 & R1). destruct to_pretty_string_rfc as (tp & E2 & R2).
    exists tc, tp. repeat split; try assumption; [apply denoted_equal|apply rfc_complete; exact R1|apply rfc_complete; exact R2].
  Qed.
End Walker.

(* ---------------------------------------------------------------- pretty = compact up to insignificant white space *)
(* remove the RFC white space (space, tab, LF, CR) that stands outside string literals; literals are copied, an escaped
   quote does not end one *)
Fixpoint strip_ws (in_str esc : bool) (t : list N) : list N :=
  match t with
  | [] => []
  | c :: r =>
      if in_str then
        c :: (if esc then strip_ws true false r
              else if c =? 92 then strip_ws true true r
              else if c =? 34 then strip_ws false false r
              else strip_ws true false r)
      else if (c =? 32) || (c =? 9) || (c =? 10) || (c =? 13) then strip_ws false false r
      else c :: strip_ws (c =? 34) false r
  end.
Definition strip_ws_outside_strings : list N -> list N := strip_ws false false.

Definition plain_char (c : N) : bool := negb ((c =? 32) || (c =? 9) || (c =? 10) || (c =? 13)) && negb (c =? 34).

Lemma strip_plain t rest : Forall (fun c => plain_char c = true) t ->
  strip_ws false false (t ++ rest) = t ++ strip_ws false false rest.
Proof.
  induction 1 as [|c t Hc _ IH]; [reflexivity|]. cbn [app strip_ws]. unfold plain_char in Hc.
  apply andb_true_iff in Hc. destruct Hc as [H1 H2]. apply negb_true_iff in H1, H2. rewrite H1, H2, IH. reflexivity.
Qed.
Lemma strip_rfc_ws w rest : rfc_ws w -> strip_ws false false (w ++ rest) = strip_ws false false rest.
Proof.
  induction 1 as [|c w Hc _ IH]; [reflexivity|]. cbn [app strip_ws].
  replace ((c =? 32) || (c =? 9) || (c =? 10) || (c =? 13)) with true; [exact IH|].
  destruct Hc as [->|[->|[->| ->]]]; reflexivity.
Qed.

Lemma strip_body s rest : bytes_ok s ->
  strip_ws true false (flat_map escape_byte s ++ 34 :: rest) = flat_map escape_byte s ++ 34 :: strip_ws false false rest.
Proof.
  induction 1 as [|b s Hb Hs IH]; cbn [flat_map]; [reflexivity|].
  destruct (escape_byte_rfc b Hb) as [E H32 N34 N92|x E Hx|h1 h2 E Hh Hhi Hlo Hu Hd]; rewrite E.
  - cbn [app strip_ws]. apply N.eqb_neq in N34, N92. rewrite N34, N92, IH. reflexivity.
  - cbn [app strip_ws]. change (92 =? 92) with true. cbv iota. rewrite IH. reflexivity.
  - apply orb_false_iff in Hd. destruct Hd as [Hd D4]. apply orb_false_iff in Hd. destruct Hd as [Hd D3].
    apply orb_false_iff in Hd. destruct Hd as [D1 D2].
    cbn [app strip_ws]. change (92 =? 92) with true. change (48 =? 92) with false. change (48 =? 34) with false. cbv iota.
    rewrite D1, D2, D3, D4, IH. reflexivity.
Qed.
Lemma strip_string s rest : bytes_ok s ->
  strip_ws false false (escape_string s ++ rest) = escape_string s ++ strip_ws false false rest.
Proof.
  intros Hs. unfold escape_string. cbn [app strip_ws]. change ((34 =? 32) || (34 =? 9) || (34 =? 10) || (34 =? 13)) with false.
  change (34 =? 34) with true. cbv iota. rewrite <- !app_assoc. cbn [app]. rewrite strip_body by exact Hs. reflexivity.
Qed.

(* a number token has no white space and no quote *)
Lemma digit_plain d : is_digit d = true -> plain_char d = true.
Proof.
  unfold is_digit. intros H. apply andb_true_iff in H. destruct H as [H1 H2]. apply N.leb_le in H1. apply N.leb_le in H2.
  assert (Hin : In d (map N.of_nat (seq 48 10))) by (apply (in_seq_N d 48 10); cbn; lia).
  cbn in Hin. repeat (destruct Hin as [<-|Hin]; [reflexivity|]). destruct Hin.
Qed.
Lemma digits_plain ds : digits ds -> Forall (fun c => plain_char c = true) ds.
Proof. unfold digits. intros H. eapply Forall_impl; [|exact H]. intros a Ha. apply digit_plain. exact Ha. Qed.
Lemma jnumber_plain t n : jnumber t n -> Forall (fun c => plain_char c = true) t.
Proof.
  intros [neg ids tf fd te e Hi Hf He]. apply Forall_app; split; [|apply Forall_app; split; [|apply Forall_app; split]].
  - destruct neg; repeat constructor.
  - destruct Hi as [|d ds Hd _ Hds]; [repeat constructor|]. constructor; [apply digit_plain; exact Hd|apply digits_plain; exact Hds].
  - destruct Hf as [|fd' _ Hfd]; [constructor|]. constructor; [reflexivity|apply digits_plain; exact Hfd].
  - destruct He as [|e0 sg ng ed He0 Hsg _ Hed]; [constructor|]. constructor; [destruct He0 as [->| ->]; reflexivity|].
    apply Forall_app. split; [destruct Hsg; repeat constructor|apply digits_plain; exact Hed].
Qed.

Section Strip.
  Variable pf : N -> list N.
  Notation strip := (strip_ws false false).

  Lemma strip_indent k rest : strip (indent k ++ rest) = strip rest.
  Proof. apply strip_rfc_ws. apply rfc_ws_indent. Qed.

  Lemma strip_items ind ind' (l : list value) :
    (forall x, In x l -> forall rest, strip (render pf true (ind + 2) x ++ rest) = render pf false (ind' + 2) x ++ strip rest) ->
    forall first rest, strip (ritems pf true ind first l ++ rest) = ritems pf false ind' first l ++ strip rest.
  Proof.
    induction l as [|x r IH]; intros Hall first rest; [reflexivity|]. rewrite !ritems_cons. unfold sep, pad.
    assert (Hx := Hall x (or_introl eq_refl)). assert (IHr := IH (fun y Hy => Hall y (or_intror Hy)) false rest).
    repeat rewrite <- app_assoc. destruct first; cbn [app].
    - rewrite strip_indent, Hx, IHr. reflexivity.
    - cbn [strip_ws]. change ((44 =? 32) || (44 =? 9) || (44 =? 10) || (44 =? 13)) with false. change (44 =? 34) with false.
      change ((10 =? 32) || (10 =? 9) || (10 =? 10) || (10 =? 13)) with true. cbv iota.
      rewrite strip_indent, Hx, IHr. reflexivity.
  Qed.

  Lemma strip_members ind ind' (o : list (list N * value)) :
    (forall kv, In kv o -> bytes_ok (fst kv) /\
       forall rest, strip (render pf true (ind + 2) (snd kv) ++ rest) = render pf false (ind' + 2) (snd kv) ++ strip rest) ->
    forall first rest, strip (rmembers pf true ind first o ++ rest) = rmembers pf false ind' first o ++ strip rest.
  Proof.
    induction o as [|[k x] r IH]; intros Hall first rest; [reflexivity|]. rewrite !rmembers_cons. unfold sep, pad, colon.
    destruct (Hall (k, x) (or_introl eq_refl)) as [Hk Hx]. cbn [fst snd] in Hk, Hx.
    assert (IHr := IH (fun y Hy => Hall y (or_intror Hy)) false rest).
    assert (Hmem : forall rest0, strip (indent (ind + 2) ++ escape_string k ++ 58 :: 32 :: render pf true (ind + 2) x ++ rest0)
                                 = escape_string k ++ 58 :: render pf false (ind' + 2) x ++ strip rest0).
    { intros rest0. rewrite strip_indent, strip_string by exact Hk. cbn [app strip_ws].
      change ((58 =? 32) || (58 =? 9) || (58 =? 10) || (58 =? 13)) with false. change (58 =? 34) with false.
      change ((32 =? 32) || (32 =? 9) || (32 =? 10) || (32 =? 13)) with true. cbv iota. rewrite Hx. reflexivity. }
    repeat rewrite <- app_assoc. destruct first; cbn [app].
    - rewrite Hmem, IHr. reflexivity.
    - cbn [strip_ws]. change ((44 =? 32) || (44 =? 9) || (44 =? 10) || (44 =? 13)) with false. change (44 =? 34) with false.
      change ((10 =? 32) || (10 =? 9) || (10 =? 10) || (10 =? 13)) with true. cbv iota.
      rewrite Hmem, IHr. reflexivity.
  Qed.

  Theorem strip_render : forall v, wf_shape v = true -> (forall b, In b (floats_of v) -> rfc_float_text pf b) ->
    forall ind ind' rest, strip (render pf true ind v ++ rest) = render pf false ind' v ++ strip rest.
  Proof.
    induction v as [|b|s|n|l IH|o IH] using value_ind2; intros Hw Hn ind ind' rest.
    - reflexivity.
    - destruct b; reflexivity.
    - cbn [wf_shape] in Hw. apply andb_true_iff in Hw. destruct Hw as [Hb _]. cbn [render].
      apply strip_string. apply bytes_okb_ok. exact Hb.
    - cbn [render]. apply strip_plain. apply (jnumber_plain _ (unsign_num n)). apply number_text_rfc; [exact Hw|].
      intros b ->. apply Hn. left. reflexivity.
    - rewrite !TextRoundtrip.render_arr. unfold opening, closing.
      cbn [wf_shape] in Hw. cbn [floats_of] in Hn. rewrite forallb_forall in Hw. rewrite Forall_forall in IH.
      repeat rewrite <- app_assoc. cbn [app strip_ws].
      change ((91 =? 32) || (91 =? 9) || (91 =? 10) || (91 =? 13)) with false. change (91 =? 34) with false.
      change ((10 =? 32) || (10 =? 9) || (10 =? 10) || (10 =? 13)) with true. cbv iota.
      rewrite (strip_items ind ind' l).
      + cbn [strip_ws]. change ((10 =? 32) || (10 =? 9) || (10 =? 10) || (10 =? 13)) with true. cbv iota.
        rewrite strip_indent. reflexivity.
      + intros x Hx rest0. apply IH; [exact Hx|apply Hw; exact Hx|].
        intros b Hb. apply Hn. apply in_flat_map. exists x. split; assumption.
    - rewrite !TextRoundtrip.render_obj. unfold opening, closing.
      cbn [wf_shape] in Hw. apply andb_true_iff in Hw. destruct Hw as [_ Hw].
      cbn [floats_of] in Hn. rewrite forallb_forall in Hw. rewrite Forall_forall in IH.
      repeat rewrite <- app_assoc. cbn [app strip_ws].
      change ((123 =? 32) || (123 =? 9) || (123 =? 10) || (123 =? 13)) with false. change (123 =? 34) with false.
      change ((10 =? 32) || (10 =? 9) || (10 =? 10) || (10 =? 13)) with true. cbv iota.
      rewrite (strip_members ind ind' o).
      + cbn [strip_ws]. change ((10 =? 32) || (10 =? 9) || (10 =? 10) || (10 =? 13)) with true. cbv iota.
        rewrite strip_indent. reflexivity.
      + intros kv Hkv. specialize (Hw kv Hkv). apply andb_true_iff in Hw. destruct Hw as [Hw Hwx].
        apply andb_true_iff in Hw. destruct Hw as [Hkb _]. split; [apply bytes_okb_ok; exact Hkb|].
        intros rest0. apply (IH kv Hkv); [exact Hwx|].
        intros b Hb. apply Hn. apply in_flat_map. exists kv. split; assumption.
  Qed.

  (* the pretty text with the white space outside its string literals removed IS the compact text *)
  Theorem pretty_strip_is_compact v : wf_shape v = true -> (forall b, In b (floats_of v) -> rfc_float_text pf b) ->
    strip_ws_outside_strings (to_pretty_string_t pf v) = to_string_t pf v.
  Proof.
    intros Hw Hn. unfold strip_ws_outside_strings, to_pretty_string_t, to_string_t.
    pose proof (strip_render v Hw Hn 0 0 []) as S. rewrite !app_nil_r in S. exact S.
  Qed.
End Strip.

Theorem walker_pretty_strip_is_compact pf v : wfb v = true -> top_ok v -> finite_numbers v = true ->
  (forall b, In b (floats_of v) -> rfc_float_text pf b) ->
  exists tc tp, to_string_w' pf (enc v) = Ok tc /\ to_pretty_string_w' pf (enc v) = Ok tp /\ strip_ws_outside_strings tp = tc.
Proof.
  intros Hwf Htop Hfin Hpf. exists (to_string_t pf (normalise v)), (to_pretty_string_t pf (normalise v)).
  split; [apply to_string_w_enc; assumption|]. split; [apply to_pretty_string_w_enc; assumption|].
  apply pretty_strip_is_compact; [apply wf_normalise; apply wfb_shape; exact Hwf|]. apply norm_floats; assumption.
Qed.
