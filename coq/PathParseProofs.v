(* PathParseProofs.v — the JSONPath and key-path parsers never panic (C09, C16). *)
From Coq Require Import List NArith ZArith Bool Lia.
Import ListNotations.
From JB Require Import Constants Bytes Utf8 Num Value Decimal JsonText TextProofs TreeOps Path PathParse.
Open Scope N_scope.
Set Default Timeout 120.

Definition np {A} (p : pres A) : Prop := p <> PPanic.

Lemma np_bind {A B} (p : pres A) (f : list N -> A -> pres B) : np p -> (forall r a, np (f r a)) -> np (pbind p f).
Proof. unfold np. destruct p; cbn [pbind]; intros H1 H2; try discriminate; auto. Qed.
Lemma np_map {A B} (g : A -> B) (p : pres A) : np p -> np (pmap g p).
Proof. intros H. unfold pmap. apply np_bind; [exact H|]. intros; unfold np; discriminate. Qed.
Lemma np_alt {A} (p : pres A) q : np p -> np (q tt) -> np (palt p q).
Proof. unfold np. destruct p; cbn [palt]; auto. Qed.
Lemma np_ok {A} r (a : A) : np (POk r a). Proof. unfold np; discriminate. Qed.
Lemma np_err {A} : np (@PErr A). Proof. unfold np; discriminate. Qed.
Lemma np_fail {A} : np (@PFail A). Proof. unfold np; discriminate. Qed.
#[local] Hint Resolve np_ok np_err np_fail : np.

Lemma np_pchar c bs : np (pchar c bs).
Proof. unfold pchar. destruct bs; auto with np. destruct (n =? c); auto with np. Qed.
Lemma np_ptag lit : forall bs, np (ptag lit bs).
Proof. induction lit; intros bs; cbn [ptag]; auto with np. destruct bs; auto with np. destruct (n =? a); auto with np. Qed.
Lemma np_ptag_nc lit : forall bs, np (ptag_no_case lit bs).
Proof. induction lit; intros bs; cbn [ptag_no_case]; auto with np. destruct bs; auto with np. destruct (_ =? _); auto with np. Qed.
Lemma np_int_digits neg lo hi bs : forall acc any, np (int_digits neg lo hi bs acc any).
Proof.
  induction bs as [|b r IH]; intros acc any; cbn [int_digits]; [destruct any; auto with np|].
  destruct (is_digit b); [|destruct any; auto with np]. destruct (_ || _)%bool; auto with np.
Qed.
Lemma np_pint lo hi bs : np (pint lo hi bs).
Proof. unfold pint. destruct bs as [|b r]; [apply np_int_digits|]. destruct b as [|p]; [apply np_int_digits|].
  do 6 (destruct p; try apply np_int_digits). Qed.
Lemma np_pu64 bs : np (pu64 bs). Proof. apply np_int_digits. Qed.
#[local] Hint Resolve np_pchar np_ptag np_ptag_nc np_pint np_pu64 : np.

Lemma np_float_parts bs : np (float_parts bs).
Proof.
  unfold float_parts.
  repeat match goal with
         | |- context [let '(_, _) := ?x in _] => destruct x
         | |- np (pbind _ _) => apply np_bind; [|intros]
         | |- np (match ?x with _ => _ end) => destruct x
         | |- np (if ?x then _ else _) => destruct x
         end; auto with np.
Qed.
Lemma np_pdouble bs : np (pdouble bs).
Proof.
  unfold pdouble. repeat (apply np_alt; [apply np_map|]); try apply np_map; auto with np. apply np_float_parts.
Qed.

(* check_escaped guarantees the same shape as the first pass of the JSON string scanner *)
Lemma scan_name_esc_ok fuel stop : (forall c, stop c = true -> c <> 92) ->
  forall bs acc esc data e rest st,
  scan_name fuel stop bs acc esc = Some (data, e, rest, st) -> exists body, data = rev acc ++ body /\ esc_ok body.
Proof.
  intros Hstop. induction fuel as [|fuel IH]; intros bs acc esc data e rest st H; cbn [scan_name] in H; [discriminate|].
  destruct bs as [|c r].
  - inversion H; subst. exists []. rewrite app_nil_r. split; [reflexivity|constructor].
  - destruct (c =? 92) eqn:Ec.
    + apply N.eqb_eq in Ec. subst c. unfold check_escaped in H.
      destruct r as [|b1 r]; [discriminate|].
      destruct (b1 =? 117) eqn:E1.
      * apply N.eqb_eq in E1. subst b1.
        destruct r as [|c2 [|c3 [|c4 [|c5 r5]]]]; try discriminate.
        destruct (c2 =? 123) eqn:E2.
        -- destruct (6 <=? length (c2 :: c3 :: c4 :: c5 :: r5))%nat eqn:E6; [|discriminate].
           apply Nat.leb_le in E6. apply N.eqb_eq in E2. subst c2.
           apply IH in H. destruct H as (body & Hd & Hb).
           destruct r5 as [|c6 [|c7 r7]]; try (cbn [length] in E6; lia).
           cbn [firstn skipn rev app] in Hd. rewrite <- !app_assoc in Hd. cbn [app] in Hd.
           exists (92 :: 117 :: 123 :: [c3; c4; c5; c6; c7] ++ body). split; [exact Hd|].
           apply eo_u6; [reflexivity|exact Hb].
        -- apply IH in H. destruct H as (body & Hd & Hb).
           cbn [firstn skipn rev app] in Hd. rewrite <- !app_assoc in Hd. cbn [app] in Hd.
           exists (92 :: 117 :: [c2; c3; c4; c5] ++ body). split; [exact Hd|].
           apply eo_u4; [reflexivity| |exact Hb]. cbn [hd]. apply N.eqb_neq. exact E2.
      * apply IH in H. destruct H as (body & Hd & Hb). cbn [rev app] in Hd. rewrite <- !app_assoc in Hd. cbn [app] in Hd.
        exists (92 :: b1 :: body). split; [exact Hd|]. apply eo_short; [apply N.eqb_neq; exact E1|exact Hb].
    + destruct (stop c) eqn:Es.
      * inversion H; subst. exists []. rewrite app_nil_r. split; [reflexivity|constructor].
      * apply IH in H. destruct H as (body & Hd & Hb). cbn [rev] in Hd. rewrite <- app_assoc in Hd. cbn [app] in Hd.
        exists (c :: body). split; [exact Hd|]. apply eo_plain; [apply N.eqb_neq; exact Ec|exact Hb].
Qed.

Lemma np_res_to_pres {A} rest (r : res A) : r <> Panic -> np (res_to_pres rest r).
Proof. unfold np. destruct r; cbn; intros H; try discriminate. contradiction. Qed.

Lemma parse_string_total data : esc_ok data -> parse_string data <> Panic.
Proof. intros H. unfold parse_string. apply parse_string_no_panic. exact H. Qed.

Lemma np_raw_string bs : np (raw_string bs).
Proof.
  unfold raw_string. destruct (scan_name (S (length bs)) is_delim bs [] 0) as [[[[data esc] rest] st]|] eqn:E; auto with np.
  destruct data as [|d0 data]; auto with np. destruct esc; [destruct (utf8_valid _); auto with np|].
  apply np_res_to_pres. apply scan_name_esc_ok in E.
  - destruct E as (body & Hd & Hb). cbn [rev app] in Hd. rewrite Hd. apply parse_string_total. exact Hb.
  - (* the backslash is not a delimiter: otherwise the escape branch would be unreachable anyway *)
    intros c Hc Heq. subst c. revert Hc. unfold is_delim.
    assert (D : existsb (N.eqb 92) RAW_STRING_DELIMS = false) by (vm_compute; reflexivity).
    rewrite D. discriminate.
Qed.
Lemma np_pstring bs : np (pstring bs).
Proof.
  unfold pstring. destruct bs as [|q body]; auto with np. destruct q as [|p]; auto with np.
  do 6 (destruct p; auto with np).
  destruct (scan_name (S (length body)) (fun c => c =? 34) body [] 0) as [[[[data esc] rest] st]|] eqn:E; auto with np.
  destruct (negb st); auto with np. destruct esc; [destruct (utf8_valid _); auto with np|].
  apply np_res_to_pres. apply scan_name_esc_ok in E.
  - destruct E as (body' & Hd & Hb). cbn [rev app] in Hd. rewrite Hd. apply parse_string_total. exact Hb.
  - intros c Hc. apply N.eqb_eq in Hc. subst c. discriminate.
Qed.
#[local] Hint Resolve np_raw_string np_pstring np_pdouble : np.

Section Comb.
  Context {A : Type} (f : list N -> pres A) (Hf : forall bs, np (f bs)).
  Lemma np_many0 fuel : forall bs acc, np (many0 f fuel bs acc).
  Proof.
    induction fuel as [|k IH]; intros bs acc; cbn [many0]; auto with np.
    pose proof (Hf bs) as H. destruct (f bs); auto with np.
    - destruct (_ =? _)%nat; auto with np.
    - exfalso; apply H; reflexivity.
  Qed.
  Variable sep : list N -> pres unit.
  Hypothesis Hsep : forall bs, np (sep bs).
  Lemma np_sep_loop fuel : forall bs acc, np (sep_loop f sep fuel bs acc).
  Proof.
    induction fuel as [|k IH]; intros bs acc; cbn [sep_loop]; auto with np.
    pose proof (Hsep bs) as H. destruct (sep bs) as [r1 u| | |]; auto with np; [|exfalso; apply H; reflexivity].
    destruct (_ =? _)%nat; auto with np.
    pose proof (Hf r1) as H2. destruct (f r1); auto with np. exfalso; apply H2; reflexivity.
  Qed.
  Lemma np_separated_list1 bs : np (separated_list1 f sep bs).
  Proof. unfold separated_list1. apply np_bind; [apply Hf|]. intros. apply np_sep_loop. Qed.
  Lemma np_ws_around bs : np (ws_around f bs).
  Proof. unfold ws_around. apply np_bind; [apply Hf|]. auto with np. Qed.
End Comb.

Ltac np_tac :=
  repeat match goal with
    | |- np (ws_around _ _) => apply np_ws_around; intros
    | |- np (separated_list1 _ _ _) => apply np_separated_list1; intros
    | |- np (sep_loop _ _ _ _ _) => apply np_sep_loop; intros
    | |- np (many0 _ _ _ _) => apply np_many0; intros
    | |- np (pbind _ _) => apply np_bind; [|intros]
    | |- np (palt _ _) => apply np_alt
    | |- np (pmap _ _) => apply np_map
    | |- np (if ?c then _ else _) => destruct c
    | |- np (match ?x with _ => _ end) => destruct x
    | |- _ => progress auto with np
    end.

Lemma np_pi32 bs : np (pi32 bs). Proof. unfold pi32. auto with np. Qed.
Lemma np_pi64 bs : np (pi64 bs). Proof. unfold pi64. auto with np. Qed.
#[local] Hint Resolve np_pi32 np_pi64 : np.
Lemma np_pindex bs : np (pindex bs). Proof. unfold pindex. np_tac. Qed.
#[local] Hint Resolve np_pindex : np.
Lemma np_parray_index bs : np (parray_index bs). Proof. unfold parray_index. np_tac. Qed.
#[local] Hint Resolve np_parray_index : np.
Lemma np_inner_path bs : np (inner_path bs).
Proof.
  unfold inner_path, bracket_wildcard, colon_field, dot_field, field_after, array_indices, object_field.
  np_tac.
Qed.
#[local] Hint Resolve np_inner_path : np.
Lemma np_path_value bs : np (path_value bs).
Proof. unfold path_value. np_tac. Qed.
#[local] Hint Resolve np_path_value : np.
Lemma np_inner_expr rp bs : np (inner_expr rp bs).
Proof. unfold inner_expr, expr_paths. np_tac. Qed.
Lemma np_pop bs : np (pop bs). Proof. unfold pop. np_tac. Qed.
Lemma np_punary bs : np (punary bs). Proof. unfold punary. np_tac. Qed.
Lemma np_pbarith bs : np (pbarith bs). Proof. unfold pbarith. np_tac. Qed.
#[local] Hint Resolve np_inner_expr np_pop np_punary np_pbarith : np.

Lemma np_exprs fuel :
  (forall rp bs, np (expr_or_fuel fuel rp bs)) /\ (forall bs, np (path_fuel fuel bs)).
Proof.
  induction fuel as [|f [IHe IHp]]; split; intros; cbn [expr_or_fuel path_fuel]; auto with np.
  - unfold expr_or, expr_and, expr_atom, pexists, exists_paths. np_tac.
  - np_tac.
Qed.

Theorem parse_json_path_total bs : parse_json_path bs <> Panic.
Proof.
  unfold parse_json_path.
  assert (H : np (json_path_fuel (S (length bs)) bs)).
  { unfold json_path_fuel, pre_path.
    apply np_bind; [|auto with np]. apply np_alt.
    - apply np_map. apply np_ws_around. intros. apply (proj1 (np_exprs _)).
    - pose proof (np_pchar 36 (multispace0 bs)) as H1.
      pose proof (np_ws_around raw_string np_raw_string (multispace0 bs)) as H2.
      unfold palt, pmap, pbind in *.
      destruct (pchar 36 (multispace0 bs)); try (exfalso; apply H1; reflexivity); auto with np.
      + apply np_bind; [apply np_many0; intros; apply (proj2 (np_exprs _))|auto with np].
      + destruct (ws_around raw_string (multispace0 bs)); try (exfalso; apply H2; reflexivity); auto with np;
          apply np_bind; try (apply np_many0; intros; apply (proj2 (np_exprs _))); auto with np. }
  unfold np in H. destruct (json_path_fuel (S (length bs)) bs) as [r ps| | |]; try discriminate.
  - destruct r; discriminate.
  - exfalso; apply H; reflexivity.
Qed.

Lemma np_key_path bs : np (key_path bs).
Proof. unfold key_path. np_tac. Qed.
#[local] Hint Resolve np_key_path : np.
Theorem parse_key_paths_total bs : parse_key_paths bs <> Panic.
Proof.
  unfold parse_key_paths. assert (H : np (key_paths bs)).
  { unfold key_paths. np_tac. }
  unfold np in H. destruct (key_paths bs) as [r ks| | |]; try discriminate.
  - destruct r; discriminate.
  - exfalso; apply H; reflexivity.
Qed.
