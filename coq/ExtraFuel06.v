(* ExtraFuel06.v — the recursion fuel of strip_nulls and delete_by_keypath (EditWalk2.v: strip_item, fuel = length of
   the buffer; del_item, fuel = length of the key path) is never the reason for an answer, on ARBITRARY input bytes.
     strip_item: every nested item handed out by the iterators is at least 8 bytes shorter than the buffer it is cut from.
     del_item:   a nested call is made on the key path that is LEFT (one element popped by the caller), and what a
                 nested call leaves is strictly shorter than what it got; on a corrupt object with several members of
                 the same name the loop may descend more than once, each time with the path the previous descent left
                 — so the invariant of the loop is "the path in the state is no longer than the tail", carried by the
                 generic fold invariants below. *)
From Coq Require Import List NArith ZArith Bool Lia.
Import ListNotations.
From JB Require Import Constants Bytes Utf8 Num Value Codec TreeOps JsonText Dispatch Walk Iter Builder
  CodecProofs WalkProofs RenderWalkProofs ContainWalkProofs EditWalk2 ExtraFuel19.
From JB Require Import BufSt EditStProofs.
Open Scope N_scope.
Set Default Timeout 120.

Arguments N.lor : simpl never.
Arguments N.land : simpl never.
Arguments N.add : simpl never.
Arguments N.mul : simpl never.
Arguments N.sub : simpl never.
Arguments N.ltb : simpl never.
Arguments N.leb : simpl never.
Arguments N.eqb : simpl never.
Arguments be32 : simpl never.
Arguments read_u32 : simpl never.
Arguments slice : simpl never.

(* ================================================================ folds of Iter.v on ANY buffer: not the fuel, and a
   postcondition from a state invariant *)
Definition post {A} (Q : A -> Prop) (r : res A) : Prop := nf r /\ forall a, r = Ok a -> Q a.
Lemma post_nf {A} (Q : A -> Prop) r : post Q r -> nf r. Proof. intros [H _]; exact H. Qed.
Lemma post_ok {A} (Q : A -> Prop) a : Q a -> post Q (Ok a).
Proof. intros H. split; [apply nf_ok|]. intros b E. injection E as <-. exact H. Qed.
Lemma post_panic {A} (Q : A -> Prop) : post Q Panic.
Proof. split; [apply nf_panic|discriminate]. Qed.
Lemma post_err {A} (Q : A -> Prop) e : e <> EFuel -> post Q (Err e).
Proof. intros H. split; [intros E; injection E as ->; apply H; reflexivity|discriminate]. Qed.
Lemma post_bind {A B} (P : A -> Prop) (Q : B -> Prop) (r : res A) (f : A -> res B) :
  post P r -> (forall a, r = Ok a -> P a -> post Q (f a)) -> post Q (bind r f).
Proof.
  intros [H1 H2] H3. destruct r as [a|e|]; cbn [bind]; [apply H3; [reflexivity|apply H2; reflexivity]| |apply post_panic].
  apply post_err. intros ->. apply H1. reflexivity.
Qed.

Definition cont {St R} (I : St -> Prop) (Q : R -> Prop) (o : St + R) : Prop := match o with inl s => I s | inr r => Q r end.

Lemma arr_fold_post {St R} bs (step : St -> je -> list N -> res (St + R)) fin (I : St -> Prop) (Q : R -> Prop) :
  (forall s, I s -> post Q (fin s)) ->
  (forall s j p, I s -> lenN p + 8 <= lenN bs -> post (cont I Q) (step s j p)) ->
  forall fuel idx len joff voff s, joff <= lenN bs + 4 -> lenN bs + 4 < joff + 4 * N.of_nat fuel -> (idx < len -> 8 <= voff) -> I s ->
  post Q (arr_fold bs step fin fuel idx len joff voff s).
Proof.
  intros Hfin Hstep. induction fuel as [|f IH]; intros idx len joff voff s H1 H2 H3 Hs; [lia|].
  cbn [arr_fold]. unfold ITER_ARR_JSTEP. destruct (len <=? idx) eqn:E; [apply Hfin; exact Hs|]. apply N.leb_gt in E.
  destruct (read_u32 bs joff) as [w|] eqn:Rw; [|apply Hfin; exact Hs].
  destruct (slice bs voff (je_len w)) as [p|] eqn:Sp; [|apply post_panic].
  pose proof (read_u32_bound _ _ _ Rw) as Bw.
  destruct (slice_split _ _ _ _ Sp) as (A & B & EV & EO & EL).
  assert (Lp : lenN p + 8 <= lenN bs) by (rewrite EV, !lenN_app; specialize (H3 E); lia).
  apply (post_bind (cont I Q)); [apply Hstep; [exact Hs|exact Lp]|]. intros [s'|y] _ Hc; cbn [cont] in Hc; [|apply post_ok; exact Hc].
  apply IH; [lia|lia| |exact Hc]. intros _. specialize (H3 E). lia.
Qed.
Lemma iterate_array_post {St R} bs hdr (step : St -> je -> list N -> res (St + R)) fin (I : St -> Prop) (Q : R -> Prop) s :
  (forall s, I s -> post Q (fin s)) -> (forall s j p, I s -> lenN p + 8 <= lenN bs -> post (cont I Q) (step s j p)) -> I s ->
  post Q (iterate_array bs hdr step fin s).
Proof.
  intros Hfin Hstep Hs. unfold iterate_array, ITER_ARR_JOFF, ITER_ARR_VOFF.
  apply (arr_fold_post bs step fin I Q Hfin Hstep); [unfold lenN; lia|unfold lenN; lia|lia|exact Hs].
Qed.

Lemma ent_loop_post {St R} bs (step : St -> list N -> je -> list N -> res (St + R)) fin (I : St -> Prop) (Q : R -> Prop) :
  (forall s, I s -> post Q (fin s)) -> (forall s k j p, I s -> lenN p + 8 <= lenN bs -> post (cont I Q) (step s k j p)) ->
  forall kws koff joff voff s, 8 <= voff -> I s -> post Q (ent_loop bs step fin kws koff joff voff s).
Proof.
  intros Hfin Hstep. induction kws as [|kw r IH]; intros koff joff voff s Hv Hs; cbn [ent_loop]; [apply Hfin; exact Hs|].
  destruct (slice bs koff (je_len kw)) as [k|]; [|apply post_panic].
  destruct (read_u32 bs joff) as [vw|]; [|apply Hfin; exact Hs].
  destruct (slice bs voff (je_len vw)) as [p|] eqn:Sp; [|apply post_panic].
  destruct (slice_split _ _ _ _ Sp) as (A & B & EV & EO & EL).
  apply (post_bind (cont I Q)); [apply Hstep; [exact Hs|rewrite EV, !lenN_app; lia]|].
  intros [s'|y] _ Hc; cbn [cont] in Hc; [|apply post_ok; exact Hc].
  apply IH; [lia|exact Hc].
Qed.
Lemma iterate_object_entries_post {St R} bs hdr (step : St -> list N -> je -> list N -> res (St + R)) fin
  (I : St -> Prop) (Q : R -> Prop) s :
  (forall s, I s -> post Q (fin s)) -> (forall s k j p, I s -> lenN p + 8 <= lenN bs -> post (cont I Q) (step s k j p)) -> I s ->
  post Q (iterate_object_entries bs hdr step fin s).
Proof.
  intros Hfin Hstep Hs. unfold iterate_object_entries, ITER_ENT_JOFF, ITER_ENT_KOFF, ITER_ENT_VOFF, ITER_FILL_JSTEP.
  destruct (rd_words (S (length bs)) bs 0 (hdr_len hdr) 4) as [kws|] eqn:E; [|apply post_panic].
  destruct kws as [|kw r]; [cbn [ent_loop]; apply Hfin; exact Hs|].
  apply (ent_loop_post bs step fin I Q Hfin Hstep); [|exact Hs].
  pose proof (rd_words_len _ _ _ _ _ _ E) as L. rewrite lenN_cons in L. lia.
Qed.

(* ================================================================ text branches *)
Lemma doc_of_text_nf bs : is_jsonb bs = false -> nf (doc_of bs).
Proof. intros E. unfold doc_of. rewrite E. apply parse_value_not_fuel. Qed.
Lemma append_enc_nf buf r : nf r -> nf (append_enc buf r).
Proof. intros H. unfold append_enc. apply nf_bind; [exact H|]. intros; apply nf_ok. Qed.

(* ================================================================ strip_nulls *)
Lemma strip_arr_nf rec hdr value : (forall p, lenN p + 8 <= lenN value -> nf (rec p)) -> nf (strip_arr rec hdr value).
Proof.
  intros Hr. unfold strip_arr. apply iterate_array_nf; [intros; apply nf_ok|]. intros s j p Lp.
  destruct (fst j =? CONTAINER_TAG); [|apply nf_ok]. apply nf_bind; [apply Hr; exact Lp|]. intros; apply nf_ok.
Qed.
Lemma strip_obj_nf rec hdr value : (forall p, lenN p + 8 <= lenN value -> nf (rec p)) -> nf (strip_obj rec hdr value).
Proof.
  intros Hr. unfold strip_obj. apply iterate_object_entries_nf; [intros; apply nf_ok|]. intros s k j p Lp.
  destruct (fst j =? CONTAINER_TAG); [apply nf_bind; [apply Hr; exact Lp|]; intros; apply nf_ok|].
  destruct (fst j =? NULL_TAG); apply nf_ok.
Qed.

Theorem strip_item_fuel : forall fuel item, (length item < fuel)%nat -> strip_item fuel item <> Err EFuel.
Proof.
  induction fuel as [|f IH]; intros item H; [lia|]. change (nf (strip_item (S f) item)). cbn [strip_item].
  assert (Hr : forall p, lenN p + 8 <= lenN item -> nf (strip_item f p)).
  { intros p Lp. apply IH. unfold lenN in Lp. lia. }
  destruct (read_u32 item 0) as [ih|]; [|apply nf_other].
  destruct (hdr_type ih =? OBJECT_CONTAINER_TAG); [apply nf_bind; [apply strip_obj_nf; exact Hr|]; intros; apply nf_ok|].
  destruct (hdr_type ih =? ARRAY_CONTAINER_TAG); [apply nf_bind; [apply strip_arr_nf; exact Hr|]; intros; apply nf_ok|].
  apply nf_panic.
Qed.

Theorem strip_nulls_b_not_fuel value buf : strip_nulls_b value buf <> Err EFuel.
Proof.
  change (nf (strip_nulls_b value buf)). rewrite ?strip_nulls_b_eq.
  assert (Hr : forall p, lenN p + 8 <= lenN value -> nf (strip_item (length value) p)).
  { intros p Lp. apply strip_item_fuel. unfold lenN in Lp. lia. }
  destruct (read_u32 value 0) as [h|]; [|apply nf_other].
  destruct (hdr_type h =? OBJECT_CONTAINER_TAG); [apply nf_bind; [apply strip_obj_nf; exact Hr|]; intros; apply nf_ok|].
  destruct (hdr_type h =? ARRAY_CONTAINER_TAG); [apply nf_bind; [apply strip_arr_nf; exact Hr|]; intros; apply nf_ok|].
  apply nf_ok.
Qed.

Theorem strip_nulls_w_not_fuel : forall bs buf, strip_nulls_w bs buf <> Err EFuel.
Proof.
  intros bs buf. rewrite ?strip_nulls_w_eq. destruct (is_jsonb bs) eqn:E; [apply strip_nulls_b_not_fuel|].
  unfold strip_nulls_m. apply append_enc_nf. apply nf_bind; [apply doc_of_text_nf; exact E|]. intros; apply nf_ok.
Qed.
Print Assumptions strip_nulls_w_not_fuel.

(* ================================================================ delete_by_keypath *)
(* what a (nested) deletion leaves of the key path is strictly shorter than what it got *)
Definition shorter {X} (ks : list keypath) (o : option (X * list keypath)) : Prop :=
  match o with Some (_, ks') => (length ks' < length ks)%nat | None => True end.

Section DelPost.
  Variable rec : list N -> list keypath -> res (option (entry * list keypath)).
  Variable ks : list keypath.
  Hypothesis Hrec : forall item kp, (length kp < length ks)%nat -> post (shorter kp) (rec item kp).

  Lemma del_arr_post value hdr : post (shorter ks) (del_arr rec value hdr ks).
  Proof.
    unfold del_arr. cbv zeta. destruct ks as [|[i|n|n] r] eqn:Eks; try (apply post_ok; exact I).
    destruct (DKP_B_SKIP _ _); [apply post_ok; exact I|].
    apply (iterate_array_post _ _ _ _ (fun st => (length (snd st) <= length r)%nat) (shorter (KIndex i :: r))).
    - intros [[n es] kp] Hi. unfold del_arr_fin. apply post_ok. cbn [shorter snd fst length] in *. lia.
    - intros [[n es] kp] j p Hi Lp. cbn [snd] in Hi. unfold del_arr_step.
      destruct (negb (n =? _)); [apply post_ok; cbn [cont snd]; exact Hi|].
      destruct (negb (kp_nil kp)); [|apply post_ok; cbn [cont snd]; exact Hi].
      destruct (fst j =? CONTAINER_TAG); [|apply post_ok; exact I].
      apply (post_bind (shorter kp)); [apply Hrec; cbn [length]; lia|].
      intros [[e kp']|] _ Hs; apply post_ok; [|exact I]. cbn [cont snd shorter] in *. lia.
    - cbn [snd]. lia.
  Qed.

  Lemma del_obj_post value hdr : post (shorter ks) (del_obj rec value hdr ks).
  Proof.
    unfold del_obj.
    assert (G : forall name r, ks = KName name :: r \/ ks = KQuoted name :: r ->
      post (shorter ks) (iterate_object_entries value hdr (del_obj_step rec name) (fun st => Ok (Some st)) ([], r))).
    { intros name r Eks.
      assert (Lk : length ks = S (length r)) by (destruct Eks as [-> | ->]; reflexivity).
      apply (iterate_object_entries_post _ _ _ _ (fun st => (length (snd st) <= length r)%nat) (shorter ks)).
      - intros [b kp] Hi. apply post_ok. cbn [shorter snd] in *. lia.
      - intros [b kp] k j p Hi Lp. cbn [snd] in Hi. unfold del_obj_step.
        destruct (negb (bytes_eqb k name)); [apply post_ok; cbn [cont snd]; exact Hi|].
        destruct (negb (kp_nil kp)); [|apply post_ok; cbn [cont snd]; exact Hi].
        destruct (fst j =? CONTAINER_TAG); [|apply post_ok; exact I].
        apply (post_bind (shorter kp)); [apply Hrec; lia|].
        intros [[e kp']|] _ Hs; apply post_ok; [|exact I]. cbn [cont snd shorter] in *. lia.
      - cbn [snd]. lia. }
    destruct ks as [|[i|n|n] r]; try (apply post_ok; exact I); apply G; [left|right]; reflexivity.
  Qed.
End DelPost.

Lemma del_item_post : forall fuel item ks, (length ks < fuel)%nat -> post (shorter ks) (del_item fuel item ks).
Proof.
  induction fuel as [|f IH]; intros item ks H; [lia|]. cbn [del_item].
  assert (Hr : forall it kp, (length kp < length ks)%nat -> post (shorter kp) (del_item f it kp)).
  { intros it kp L. apply IH. lia. }
  destruct (read_u32 item 0) as [ih|]; [|apply post_err; discriminate].
  destruct (hdr_type ih =? ARRAY_CONTAINER_TAG).
  { apply (post_bind (shorter ks)); [apply del_arr_post; exact Hr|].
    intros [[es ks']|] _ Hs; apply post_ok; [exact Hs|exact I]. }
  destruct (hdr_type ih =? OBJECT_CONTAINER_TAG); [|apply post_panic].
  apply (post_bind (shorter ks)); [apply del_obj_post; exact Hr|].
  intros [[b ks']|] _ Hs; apply post_ok; [exact Hs|exact I].
Qed.

Theorem del_item_fuel : forall fuel item ks, (length ks < fuel)%nat -> del_item fuel item ks <> Err EFuel.
Proof. intros fuel item ks H. exact (post_nf _ _ (del_item_post fuel item ks H)). Qed.

Theorem delete_by_keypath_b_not_fuel value ks buf : delete_by_keypath_b value ks buf <> Err EFuel.
Proof.
  change (nf (delete_by_keypath_b value ks buf)). rewrite ?delete_by_keypath_b_eq.
  assert (Hr : forall it kp, (length kp < length ks)%nat -> post (shorter kp) (del_item (length ks) it kp)).
  { intros it kp L. apply del_item_post. exact L. }
  destruct (read_u32 value 0) as [h|]; [|apply nf_other].
  destruct (hdr_type h =? ARRAY_CONTAINER_TAG).
  { apply nf_bind; [exact (post_nf _ _ (del_arr_post _ ks Hr value h))|]. intros [[es ks']|] _; apply nf_ok. }
  destruct (hdr_type h =? OBJECT_CONTAINER_TAG).
  { apply nf_bind; [exact (post_nf _ _ (del_obj_post _ ks Hr value h))|]. intros [[b ks']|] _; apply nf_ok. }
  intros E; discriminate E.
Qed.

Lemma delete_by_keypath_t_nf v ks : nf (delete_by_keypath_t v ks).
Proof.
  unfold delete_by_keypath_t.
  destruct v; try (intros E; discriminate E); destruct (del_keypath (S (length ks)) _ ks); apply nf_ok.
Qed.

Theorem delete_by_keypath_w_not_fuel : forall bs ks buf, delete_by_keypath_w bs ks buf <> Err EFuel.
Proof.
  intros bs ks buf. rewrite ?delete_by_keypath_w_eq. destruct (is_jsonb bs) eqn:E; [apply delete_by_keypath_b_not_fuel|].
  unfold delete_by_keypath_m. apply append_enc_nf. apply nf_bind; [apply doc_of_text_nf; exact E|].
  intros v _. apply delete_by_keypath_t_nf.
Qed.
Print Assumptions delete_by_keypath_w_not_fuel.

(* corrupt buffers: the walkers answer, and the answer is not the fuel *)
Definition fuel06_doc :=
  VObj [([97], VObj [([120], VNull); ([121], VArr [VNull; VBool true])]); ([98], VObj [([120], VNum (NUInt 1))])].
(* truncated encoding *)
Example fuel06_strip_truncated : strip_nulls_w (firstn 40 (enc fuel06_doc)) [] = Panic.
Proof. vm_compute. reflexivity. Qed.
(* member count of the top object replaced by 2^29 - 1 *)
Example fuel06_strip_huge_count : strip_nulls_w (64 :: 255 :: 255 :: 255 :: skipn 4 (enc fuel06_doc)) [] = Panic.
Proof. vm_compute. reflexivity. Qed.
Example fuel06_del_truncated : delete_by_keypath_w (firstn 40 (enc fuel06_doc)) [KName [97]; KName [120]] [] = Panic.
Proof. vm_compute. reflexivity. Qed.
(* key "b" overwritten by "a": two members of the same name, the loop meets the name twice (the second time with the
   key path the first descent left, here empty: that member is dropped) *)
Example fuel06_del_duplicate_key :
  delete_by_keypath_w (firstn 21 (enc fuel06_doc) ++ 97 :: skipn 22 (enc fuel06_doc)) [KName [97]; KName [120]] []
  = Ok [64; 0; 0; 1; 16; 0; 0; 1; 80; 0; 0; 25; 97; 64; 0; 0; 1; 16; 0; 0;
        1; 80; 0; 0; 12; 121; 128; 0; 0; 2; 0; 0; 0; 0; 64; 0; 0; 0].
Proof. vm_compute. reflexivity. Qed.
(* header type of the nested object replaced by an unknown one: unreachable!() *)
Example fuel06_strip_bad_nested : strip_nulls_w (firstn 22 (enc fuel06_doc) ++ 0 :: skipn 23 (enc fuel06_doc)) [] = Panic.
Proof. vm_compute. reflexivity. Qed.
