(* C13: laws that PIN the set functions (the algebraic laws of Props/C13.v alone would also hold for `distinct := id`).
   Identity of elements is `item_eqb` (= identical entry word and payload, MiscProofs.item_eqb_spec); `cnt x l` counts
   the elements of l identical to x.
   - distinct: the result has no two identical elements, and it is the list of FIRST occurrences:
       distinct (x :: l) = x :: distinct (l without the elements identical to x);
     an element is kept iff no identical element precedes it; every class keeps count 1.
   - intersection / except: exact multiset counting, cnt = min resp. truncated difference;
   - all three results are sub-sequences of the first list (order of the first list). *)
From Coq Require Import List NArith ZArith Bool Lia.
Import ListNotations.
From JB Require Import Constants Bytes Num Value Codec SetOps MiscProofs SetWalkProofs.
Open Scope N_scope.
Set Default Timeout 30.

Definition cnt (x : value) (l : list value) : nat := length (filter (item_eqb x) l).
Definition without (x : value) (l : list value) : list value := filter (fun y => negb (item_eqb y x)) l.

Lemma item_eqb_class x y z : item_eqb x y = true -> item_eqb x z = item_eqb y z.
Proof.
  intros H. destruct (item_eqb y z) eqn:E.
  - eapply item_eqb_trans; eauto.
  - destruct (item_eqb x z) eqn:E2; [|reflexivity]. rewrite item_eqb_sym in H. rewrite <- E. symmetry. eapply item_eqb_trans; eauto.
Qed.
Lemma cnt_class x y l : item_eqb x y = true -> cnt x l = cnt y l.
Proof. intros H. unfold cnt. f_equal. apply filter_ext. intros z. apply item_eqb_class. exact H. Qed.
Lemma cnt_cons x y l : cnt x (y :: l) = ((if item_eqb x y then 1 else 0) + cnt x l)%nat.
Proof. unfold cnt. cbn [filter]. destruct (item_eqb x y); reflexivity. Qed.
Lemma cnt_zero x l : cnt x l = 0%nat <-> existsb (item_eqb x) l = false.
Proof.
  induction l as [|y l IH]; [split; reflexivity|]. rewrite cnt_cons. cbn [existsb]. destruct (item_eqb x y); cbn [orb].
  - split; [lia|discriminate].
  - exact IH.
Qed.

(* ================================================================ distinct *)
(* the marked set matters only through membership *)
Lemma distinct_seen_ext l : forall s1 s2, (forall y, existsb (item_eqb y) s1 = existsb (item_eqb y) s2) ->
  distinct_acc s1 l = distinct_acc s2 l.
Proof.
  induction l as [|x r IH]; intros s1 s2 H; cbn [distinct_acc]; [reflexivity|].
  rewrite <- (H x). destruct (existsb (item_eqb x) s1); [apply IH; exact H|]. f_equal. apply IH.
  intros y. cbn [existsb]. rewrite (H y). reflexivity.
Qed.

Lemma distinct_seen_without x l : forall seen, distinct_acc (x :: seen) l = distinct_acc seen (without x l).
Proof.
  induction l as [|y r IH]; intros seen; [reflexivity|]. cbn [distinct_acc without filter existsb].
  destruct (item_eqb y x) eqn:Eyx; cbn [orb negb].
  - apply IH.
  - fold (without x r). cbn [distinct_acc]. destruct (existsb (item_eqb y) seen) eqn:Es; [apply IH|]. f_equal.
    rewrite <- IH. apply distinct_seen_ext. intros z. cbn [existsb]. destruct (item_eqb z y), (item_eqb z x); reflexivity.
Qed.

(* the recursive characterisation: the first element is kept, then the rest without everything identical to it *)
Theorem distinct_first_occurrences x l : distinct_acc [] (x :: l) = x :: distinct_acc [] (without x l).
Proof. cbn [distinct_acc existsb]. f_equal. apply distinct_seen_without. Qed.
Theorem distinct_nil : distinct_acc [] [] = [].
Proof. reflexivity. Qed.

(* what is kept is not identical to anything marked before *)
Lemma distinct_fresh l : forall seen y, In y (distinct_acc seen l) -> existsb (item_eqb y) seen = false.
Proof.
  induction l as [|x r IH]; intros seen y H; cbn [distinct_acc] in H; [destruct H|].
  destruct (existsb (item_eqb x) seen) eqn:E; [apply IH; exact H|].
  destruct H as [<-|H]; [exact E|]. apply IH in H. cbn [existsb] in H. apply orb_false_iff in H. apply H.
Qed.

(* no two elements of the result are identical: their keys (entry word, payload) are pairwise different *)
Theorem distinct_nodup l : forall seen, NoDup (map enc_item (distinct_acc seen l)).
Proof.
  induction l as [|x r IH]; intros seen; cbn [distinct_acc]; [constructor|].
  destruct (existsb (item_eqb x) seen); [apply IH|]. cbn [map]. constructor; [|apply IH].
  intros Hin. apply in_map_iff in Hin. destruct Hin as (y & Ek & Hy). apply distinct_fresh in Hy.
  cbn [existsb] in Hy. apply orb_false_iff in Hy. destruct Hy as [Hy _].
  assert (item_eqb y x = true) by (apply item_eqb_spec; exact Ek). congruence.
Qed.

(* every class of identical elements that occurs is kept exactly once; classes that do not occur stay absent *)
Theorem distinct_counts l : forall seen x,
  cnt x (distinct_acc seen l) = (if existsb (item_eqb x) seen then 0 else if existsb (item_eqb x) l then 1 else 0)%nat.
Proof.
  induction l as [|y r IH]; intros seen x; cbn [distinct_acc existsb].
  - destruct (existsb (item_eqb x) seen); reflexivity.
  - destruct (existsb (item_eqb y) seen) eqn:Ey.
    + rewrite IH. destruct (existsb (item_eqb x) seen) eqn:Ex; [reflexivity|].
      destruct (item_eqb x y) eqn:Exy; [|reflexivity]. exfalso.
      apply existsb_exists in Ey. destruct Ey as (s & Hs & Es).
      assert (existsb (item_eqb x) seen = true); [|congruence]. apply existsb_exists. exists s. split; [exact Hs|].
      eapply item_eqb_trans; eauto.
    + rewrite cnt_cons, IH. cbn [existsb]. destruct (item_eqb x y) eqn:Exy; cbn [orb].
      * replace (existsb (item_eqb x) seen) with false; [reflexivity|]. symmetry.
        destruct (existsb (item_eqb x) seen) eqn:Ex; [|reflexivity]. exfalso.
        apply existsb_exists in Ex. destruct Ex as (s & Hs & Es).
        assert (existsb (item_eqb y) seen = true); [|congruence]. apply existsb_exists. exists s. split; [exact Hs|].
        rewrite item_eqb_sym in Exy. eapply item_eqb_trans; eauto.
      * destruct (existsb (item_eqb x) seen); reflexivity.
Qed.

(* position by position: the element at position i of the input is kept iff no identical element stands before it.
   `kept seen l` = the flags distinct computes; the theorem says each flag is "nothing identical among the earlier ones" *)
Fixpoint first_flags (before l : list value) : list bool :=
  match l with [] => [] | x :: r => negb (existsb (item_eqb x) before) :: first_flags (before ++ [x]) r end.
Fixpoint select_flags {A} (fl : list bool) (l : list A) : list A :=
  match fl, l with b :: fr, x :: r => if b then x :: select_flags fr r else select_flags fr r | _, _ => [] end.

Lemma existsb_app_one y seen x : existsb (item_eqb y) (seen ++ [x]) = existsb (item_eqb y) seen || item_eqb y x.
Proof. rewrite existsb_app. cbn [existsb]. rewrite orb_false_r. reflexivity. Qed.

Lemma distinct_is_first_flags l : forall seen before, (forall y, existsb (item_eqb y) seen = existsb (item_eqb y) before) ->
  distinct_acc seen l = select_flags (first_flags before l) l.
Proof.
  induction l as [|x r IH]; intros seen before H; [reflexivity|]. cbn [distinct_acc first_flags select_flags].
  rewrite (H x). destruct (existsb (item_eqb x) before) eqn:E; cbn [negb].
  - apply IH. intros y. rewrite existsb_app_one, (H y).
    destruct (item_eqb y x) eqn:Eyx; [|rewrite orb_false_r; reflexivity]. rewrite orb_true_r.
    apply existsb_exists in E. destruct E as (s & Hs & Es). apply existsb_exists. exists s. split; [exact Hs|].
    eapply item_eqb_trans; eauto.
  - f_equal. apply IH. intros y. rewrite existsb_app_one. cbn [existsb]. rewrite (H y). apply orb_comm.
Qed.

Theorem distinct_keeps_first_occurrences l : distinct_acc [] l = select_flags (first_flags [] l) l.
Proof. apply distinct_is_first_flags. reflexivity. Qed.

(* ================================================================ intersection / except: counting *)
Lemma take_one_some y m m' : take_one y m = Some m' -> forall x, cnt x m = ((if item_eqb x y then 1 else 0) + cnt x m')%nat.
Proof.
  revert m'. induction m as [|z m IH]; intros m' H x; cbn [take_one] in H; [discriminate|].
  destruct (item_eqb y z) eqn:Eyz.
  - injection H as <-. rewrite cnt_cons. rewrite item_eqb_sym in Eyz. rewrite (item_eqb_sym x y), <- (item_eqb_class z y x Eyz), (item_eqb_sym z x). reflexivity.
  - destruct (take_one y m) as [r'|] eqn:E; [|discriminate]. injection H as <-. rewrite !cnt_cons, (IH r' eq_refl x). lia.
Qed.
Lemma take_one_none y m : take_one y m = None -> cnt y m = 0%nat.
Proof.
  induction m as [|z m IH]; intros H; cbn [take_one] in H; [reflexivity|].
  destruct (item_eqb y z) eqn:Eyz; [discriminate|]. destruct (take_one y m); [discriminate|]. rewrite cnt_cons, Eyz. apply IH. reflexivity.
Qed.

Theorem inter_count x l : forall m, cnt x (inter_acc l m) = Nat.min (cnt x l) (cnt x m).
Proof.
  induction l as [|y r IH]; intros m; cbn [inter_acc]; [reflexivity|]. rewrite (cnt_cons x y r).
  destruct (take_one y m) as [m'|] eqn:E.
  - rewrite cnt_cons, IH, (take_one_some y m m' E x). destruct (item_eqb x y); lia.
  - rewrite IH. destruct (item_eqb x y) eqn:Exy; [|reflexivity].
    rewrite (cnt_class x y m Exy), (take_one_none y m E). lia.
Qed.
Theorem except_count x l : forall m, cnt x (except_acc l m) = (cnt x l - cnt x m)%nat.
Proof.
  induction l as [|y r IH]; intros m; cbn [except_acc]; [reflexivity|]. rewrite (cnt_cons x y r).
  destruct (take_one y m) as [m'|] eqn:E.
  - rewrite IH, (take_one_some y m m' E x). destruct (item_eqb x y); lia.
  - rewrite cnt_cons, IH. destruct (item_eqb x y) eqn:Exy; [|reflexivity].
    rewrite (cnt_class x y m Exy), (take_one_none y m E). lia.
Qed.

(* ================================================================ as statements about the public tree functions *)
Theorem array_distinct_pinned v :
  NoDup (map enc_item (items_of (array_distinct_t v))) /\
  subseq (items_of (array_distinct_t v)) (items_of v) /\
  items_of (array_distinct_t v) = select_flags (first_flags [] (items_of v)) (items_of v) /\
  (forall x, cnt x (items_of (array_distinct_t v)) = if existsb (item_eqb x) (items_of v) then 1 else 0)%nat.
Proof.
  unfold array_distinct_t. cbn [items_of]. split; [apply distinct_nodup|]. split; [apply distinct_sub|].
  split; [apply distinct_keeps_first_occurrences|]. intros x. rewrite distinct_counts. reflexivity.
Qed.

Theorem array_distinct_recursive :
  (forall x l, items_of (array_distinct_t (VArr (x :: l))) = x :: items_of (array_distinct_t (VArr (without x l)))) /\
  items_of (array_distinct_t (VArr [])) = [].
Proof. split; [intros x l; apply distinct_first_occurrences|reflexivity]. Qed.

Theorem intersection_except_count a b x :
  cnt x (items_of (array_intersection_t a b)) = Nat.min (cnt x (items_of a)) (cnt x (items_of b)) /\
  cnt x (items_of (array_except_t a b)) = (cnt x (items_of a) - cnt x (items_of b))%nat /\
  subseq (items_of (array_intersection_t a b)) (items_of a) /\ subseq (items_of (array_except_t a b)) (items_of a).
Proof.
  unfold array_intersection_t, array_except_t. cbn [items_of].
  split; [apply inter_count|]. split; [apply except_count|]. split; [apply inter_sub|apply except_sub].
Qed.

(* not vacuous: [1, "a", 1, 2, "a", 1] -- Int64 1 and UInt64 1 are DIFFERENT elements (different payload bytes) *)
Example set_functions_example :
  let one := VNum (NUInt 1) in let two := VNum (NUInt 2) in let a := VStr [97] in
  array_distinct_t (VArr [one; a; one; two; a; one]) = VArr [one; a; two] /\
  first_flags [] [one; a; one; two; a; one] = [true; true; false; true; false; false] /\
  array_intersection_t (VArr [one; a; one; two; a; one]) (VArr [one; one; a; VNull]) = VArr [one; a; one] /\
  array_except_t (VArr [one; a; one; two; a; one]) (VArr [one; one; a; VNull]) = VArr [two; a; one] /\
  cnt one [one; a; one; two; a; one] = 3%nat /\
  array_distinct_t (VArr [one; VNum (NInt 1)]) = VArr [one; VNum (NInt 1)].
Proof. vm_compute. repeat split. Qed.

(* ================================================================ intersection / except: WHICH occurrences are kept (L5) *)
(* position by position, scanning the first list left to right: an element is kept by the intersection while unmatched copies
   remain in the second list, i.e. iff fewer identical elements stand before it than the second list has copies -- the first
   min(cnt a, cnt b) occurrences of each class; except keeps exactly the other positions.  Stated by counting only (no
   reference to take_one / the shrinking multiset of the definition). *)
Fixpoint quota_flags (b before l : list value) : list bool :=
  match l with [] => [] | x :: r => (cnt x before <? cnt x b)%nat :: quota_flags b (before ++ [x]) r end.

Lemma cnt_app_one y before x : cnt y (before ++ [x]) = (cnt y before + (if item_eqb y x then 1 else 0))%nat.
Proof. unfold cnt. rewrite filter_app, app_length. cbn [filter]. destruct (item_eqb y x); reflexivity. Qed.

Lemma inter_except_flags b l : forall m before, (forall y, cnt y m = (cnt y b - cnt y before)%nat) ->
  inter_acc l m = select_flags (quota_flags b before l) l /\
  except_acc l m = select_flags (map negb (quota_flags b before l)) l.
Proof.
  induction l as [|x r IH]; intros m before H; [split; reflexivity|]. cbn [inter_acc except_acc quota_flags map select_flags].
  destruct (take_one x m) as [m'|] eqn:E.
  - pose proof (take_one_some x m m' E) as T. pose proof (T x) as Tx. rewrite item_eqb_refl in Tx.
    replace (cnt x before <? cnt x b)%nat with true by (symmetry; apply Nat.ltb_lt; rewrite (H x) in Tx; lia). cbn [negb].
    destruct (IH m' (before ++ [x])) as [I1 I2].
    { intros y. rewrite cnt_app_one. specialize (T y). rewrite (H y) in T. lia. }
    rewrite I1, I2. split; reflexivity.
  - pose proof (take_one_none x m E) as T.
    replace (cnt x before <? cnt x b)%nat with false by (symmetry; apply Nat.ltb_ge; rewrite (H x) in T; lia). cbn [negb].
    destruct (IH m (before ++ [x])) as [I1 I2].
    { intros y. rewrite cnt_app_one. destruct (item_eqb y x) eqn:Eyx; [|rewrite (H y); lia].
      rewrite (cnt_class y x m Eyx), T. rewrite (cnt_class y x b Eyx), (cnt_class y x before Eyx). rewrite (H x) in T. lia. }
    rewrite I1, I2. split; reflexivity.
Qed.
Theorem intersection_except_occurrences a b :
  items_of (array_intersection_t a b) = select_flags (quota_flags (items_of b) [] (items_of a)) (items_of a) /\
  items_of (array_except_t a b) = select_flags (map negb (quota_flags (items_of b) [] (items_of a))) (items_of a).
Proof. unfold array_intersection_t, array_except_t. cbn [items_of]. apply inter_except_flags. intros y. cbn. lia. Qed.
(* the same, recursively (as for distinct): the head is kept iff the second list has a copy of it; the rest is then matched
   against the second list minus ONE such copy (any list with one copy less gives the same answer) *)
Theorem intersection_except_recursive x l m :
  (forall m', (forall y, cnt y m = ((if item_eqb y x then 1 else 0) + cnt y m')%nat) ->
     inter_acc (x :: l) m = x :: inter_acc l m' /\ except_acc (x :: l) m = except_acc l m') /\
  (cnt x m = 0%nat -> inter_acc (x :: l) m = inter_acc l m /\ except_acc (x :: l) m = x :: except_acc l m).
Proof.
  split.
  - intros m' H.
    destruct (inter_except_flags m (x :: l) m [] ltac:(intros y; cbn; lia)) as [A1 A2].
    destruct (inter_except_flags m l m' [x]) as [B1 B2].
    { intros y. rewrite (H y). cbn [cnt filter]. unfold cnt. cbn [filter]. destruct (item_eqb y x); cbn [length]; lia. }
    rewrite A1, A2, B1, B2. cbn [quota_flags map select_flags app].
    pose proof (H x) as Hx. rewrite item_eqb_refl in Hx.
    replace (cnt x [] <? cnt x m)%nat with true by (symmetry; apply Nat.ltb_lt; cbn; lia). cbn [negb]. split; reflexivity.
  - intros H0. cbn [inter_acc except_acc]. destruct (take_one x m) as [m'|] eqn:E; [|split; reflexivity].
    pose proof (take_one_some x m m' E x) as T. rewrite item_eqb_refl in T. lia.
Qed.
Example intersection_occurrences_example :
  let a := [VNum (NUInt 1); VNum (NUInt 2); VNum (NUInt 1); VNum (NUInt 1)] in
  let b := [VNum (NUInt 1); VNum (NUInt 3); VNum (NUInt 1)] in
  quota_flags b [] a = [true; false; true; false] /\
  items_of (array_intersection_t (VArr a) (VArr b)) = [VNum (NUInt 1); VNum (NUInt 1)] /\
  items_of (array_except_t (VArr a) (VArr b)) = [VNum (NUInt 2); VNum (NUInt 1)].
Proof. vm_compute. repeat split. Qed.
