(* SerdeProofs.v — the serde_json conversions are mutually inverse on finite documents (C19). *)
From Coq Require Import List NArith ZArith Bool Lia.
Import ListNotations.
From JB Require Import Constants Bytes Utf8 Num NumProofs Value Codec Order OrderProofs CodecProofs RoundtripProofs TreeWf
  TreeOps Serde Path PathSem.
Open Scope N_scope.
Set Default Timeout 120.

(* what a trip through serde_json does to the representation: a non-negative Int64 comes back as UInt64 *)
Definition unsign_num (n : num) : num := match n with NInt z => if (z <? 0)%Z then n else NUInt (Z.to_N z) | _ => n end.
Fixpoint unsign (v : value) : value :=
  match v with
  | VNum n => VNum (unsign_num n)
  | VArr l => VArr (map unsign l)
  | VObj o => VObj (map (fun kv => (fst kv, unsign (snd kv))) o)
  | _ => v
  end.

Lemma unsign_num_eq n : num_cmp (unsign_num n) n = Eq.
Proof.
  destruct n as [z|u|b]; cbn [unsign_num]; try apply num_cmp_refl.
  destruct (z <? 0)%Z eqn:E; [apply num_cmp_refl|]. apply Z.ltb_ge in E.
  rewrite num_cmp_antisym. rewrite (num_cmp_int_uint z E). reflexivity.
Qed.
Theorem unsign_equal v : cmp_value (unsign v) v = Eq.
Proof.
  induction v as [|b|s|n|l IH|o IH] using value_ind2; cbn [unsign]; try apply cmp_value_refl.
  - cbn [cmp_value]. apply unsign_num_eq.
  - rewrite cmp_arr. induction IH as [|x xs Hx _ IHl]; cbn [map lex]; [reflexivity|]. rewrite Hx. exact IHl.
  - rewrite cmp_obj. induction IH as [|[k x] xs Hx _ IHl]; cbn [map lex]; [reflexivity|].
    unfold pair_cmp at 1. cbn [fst snd] in *. rewrite bytes_refl, Hx. exact IHl.
Qed.

(* rebuilding a strictly sorted association list by successive inserts gives it back *)
Lemma fold_insert_sorted {V W} (g : V -> W) (o : list (list N * V)) : forall acc,
  strongly_sorted o -> Forall (fun a => Forall (fun kv => bytes_cmp (fst a) (fst kv) = Lt) o) acc ->
  fold_left (fun acc kv => assoc_insert (fst kv) (g (snd kv)) acc) o acc = acc ++ map (fun kv => (fst kv, g (snd kv))) o.
Proof.
  induction o as [|[k v] o IH]; intros acc HS HA; cbn [fold_left map]; [rewrite app_nil_r; reflexivity|].
  cbn [strongly_sorted] in HS. destruct HS as [HS1 HS2]. cbn [fst snd].
  rewrite assoc_insert_append.
  - rewrite IH; [rewrite <- app_assoc; reflexivity|exact HS2|].
    apply Forall_app. split.
    + eapply Forall_impl; [|exact HA]. intros a Ha. inversion Ha; subst. assumption.
    + constructor; [exact HS1|constructor].
  - eapply Forall_impl; [|exact HA]. intros a Ha. inversion Ha as [|? ? Hak _]; subst. cbn [fst] in Hak.
    rewrite bytes_antisym, Hak. reflexivity.
Qed.

Theorem serde_roundtrip v : wf_shape v = true -> forall s, to_serde_json_t v = Ok s -> serde_to_value s = unsign v.
Proof.
  unfold to_serde_json_t.
  induction v as [|b|x|n|l IH|o IH] using value_ind2; intros Hwf s H.
  - inversion H; reflexivity.
  - inversion H; reflexivity.
  - inversion H; reflexivity.
  - destruct n as [z|u|b]; cbn [to_serde] in H.
    + inversion H; subst. cbn [unsign unsign_num]. unfold snum_of_i64. destruct (z <? 0)%Z; reflexivity.
    + inversion H; subst. reflexivity.
    + unfold snum_of_f64 in H. destruct (f_is_nan b || f_is_inf b); [discriminate|]. inversion H; subst. reflexivity.
  - cbn [to_serde] in H.
    match type of H with bind ?g _ = _ => destruct g as [l'| |] eqn:E end; cbn [bind] in H; try discriminate.
    inversion H; subst; clear H. cbn [serde_to_value unsign]. f_equal.
    cbn [wf_shape] in Hwf. revert l' E. induction IH as [|y ys Hy _ IHl]; intros l' E.
    + inversion E; reflexivity.
    + cbn [forallb] in Hwf. apply andb_true_iff in Hwf. destruct Hwf as [W1 W2].
      destruct (to_serde (Err EOther) y) as [a| |] eqn:Ea; cbn [bind] in E; try discriminate.
      match type of E with bind ?g _ = _ => destruct g as [bs| |] eqn:Eb end; cbn [bind] in E; try discriminate.
      inversion E; subst. cbn [map]. f_equal; [apply Hy; auto|apply IHl; auto].
  - cbn [to_serde] in H.
    match type of H with bind ?g _ = _ => destruct g as [o'| |] eqn:E end; cbn [bind] in H; try discriminate.
    inversion H; subst; clear H. cbn [serde_to_value unsign]. f_equal.
    cbn [wf_shape] in Hwf. apply andb_true_iff in Hwf. destruct Hwf as [Hs Hm].
    assert (G : exists ss, o' = combine (map fst o) ss /\ length ss = length o /\
                map serde_to_value ss = map (fun kv => unsign (snd kv)) o).
    { revert o' E. induction IH as [|[k y] ys Hy _ IHl]; intros o' E.
      - inversion E. exists []. repeat split.
      - cbn [forallb fst snd] in Hm. apply andb_true_iff in Hm. destruct Hm as [W1 W2]. apply andb_true_iff in W1. destruct W1 as [_ W1].
        cbn [snd] in Hy.
        destruct (to_serde (Err EOther) y) as [a| |] eqn:Ea; cbn [bind] in E; try discriminate.
        match type of E with bind ?g _ = _ => destruct g as [bs| |] eqn:Eb end; cbn [bind] in E; try discriminate.
        inversion E; subst.
        assert (Hs' : keys_sorted ys = true).
        { apply sorted_iff. apply sorted_iff in Hs. cbn [strongly_sorted] in Hs. apply Hs. }
        destruct (IHl Hs' W2 bs eq_refl) as (ss & -> & L & Ms).
        exists (a :: ss). cbn [map combine length fst snd]. repeat split; [lia|]. f_equal; [apply Hy; auto|exact Ms]. }
    destruct G as (ss & -> & L & Ms).
    (* the fold rebuilds the sorted list *)
    assert (F : fold_left (fun acc (kv : list N * sj) => assoc_insert (fst kv) (serde_to_value (snd kv)) acc) (combine (map fst o) ss) []
                = map (fun kv => (fst kv, serde_to_value (snd kv))) (combine (map fst o) ss)).
    { apply (fold_insert_sorted serde_to_value (combine (map fst o) ss) []); [|constructor].
      apply sorted_iff in Hs. clear -Hs L. revert ss L. induction o as [|[k y] o IH]; intros ss L; [exact I|].
      destruct ss as [|s0 ss]; [discriminate|]. cbn [map combine fst strongly_sorted]. cbn [strongly_sorted] in Hs. destruct Hs as [H1 H2]. split.
      - apply Forall_forall. intros [k' s'] Hin. apply in_combine_l in Hin. apply in_map_iff in Hin. destruct Hin as ([k2 y2] & <- & Hin2).
        rewrite Forall_forall in H1. apply (H1 (k2, y2) Hin2).
      - apply IH; [exact H2|cbn [length] in L; lia]. }
    rewrite F. clear F.
    clear E IH Hm Hs. revert ss L Ms. induction o as [|[k y] o IH]; intros ss L Ms.
    + destruct ss; [reflexivity|cbn [length] in L; lia].
    + destruct ss as [|s0 ss]; [cbn [length] in L; lia|].
      cbn [map combine fst snd] in *. injection Ms as Ms1 Ms2. rewrite Ms1. f_equal. apply IH; [cbn [length] in L; lia|exact Ms2].
Qed.

(* the two conversions are mutually inverse on finite documents: the value that comes back is equal *)
Theorem serde_roundtrip_equal v s : wf_shape v = true -> to_serde_json_t v = Ok s -> cmp_value (serde_to_value s) v = Eq.
Proof. intros Hwf H. rewrite (serde_roundtrip v Hwf s H). apply unsign_equal. Qed.

(* the object-only variant agrees with the general one *)
Theorem serde_object_variant v :
  to_serde_json_object_t v = match v with VObj _ => res_map Some (to_serde_json_t v) | _ => Ok None end.
Proof. destruct v; try reflexivity; unfold to_serde_json_object_t; destruct (to_serde_json_t _); reflexivity. Qed.

