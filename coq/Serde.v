(* Serde.v — model of the serde_json data model (Value / Number / Map) and of the conversions in
   functions.rs (to_serde_json, to_serde_json_object) and from.rs.  serde_json is modelled, not verified. *)
From Coq Require Import List NArith ZArith Bool.
Import ListNotations.
From JB Require Import Constants Bytes Num Value.
Open Scope N_scope.

Inductive snum := SPos (n : N) | SNeg (z : Z) | SFloat (bits : N).
Inductive sj :=
| SNull | SBool (b : bool) | SNum (n : snum) | SStr (s : list N)
| SArr (l : list sj) | SObj (l : list (list N * sj)).     (* Map: unique keys; printed in key order *)

Definition snum_of_i64 (z : Z) : snum := if (z <? 0)%Z then SNeg z else SPos (Z.to_N z).
Definition snum_of_f64 (b : N) : option snum := if f_is_nan b || f_is_inf b then None else Some (SFloat b).

(* to_serde_json on binary: Err(InvalidJson) for a non-finite float.  From<Value> for JsonValue: the same
   conversion, but `from_f64(v).unwrap()` panics there *)
Fixpoint to_serde (on_nonfinite : res sj) (v : value) : res sj :=
  match v with
  | VNull => Ok SNull
  | VBool b => Ok (SBool b)
  | VStr s => Ok (SStr s)
  | VNum (NInt z) => Ok (SNum (snum_of_i64 z))
  | VNum (NUInt n) => Ok (SNum (SPos n))
  | VNum (NFloat b) => match snum_of_f64 b with Some x => Ok (SNum x) | None => on_nonfinite end
  | VArr l =>
      do l' <- (fix go (l : list value) : res (list sj) :=
                  match l with [] => Ok [] | x :: r => do a <- to_serde on_nonfinite x; do b <- go r; Ok (a :: b) end) l;
      Ok (SArr l')
  | VObj o =>
      do o' <- (fix go (l : list (list N * value)) : res (list (list N * sj)) :=
                  match l with [] => Ok [] | (k, x) :: r => do a <- to_serde on_nonfinite x; do b <- go r; Ok ((k, a) :: b) end) o;
      Ok (SObj o')
  end.
Definition to_serde_json_t (v : value) : res sj := to_serde (Err EOther) v.
Definition value_to_serde (v : value) : res sj := to_serde Panic v.
Definition to_serde_json_object_t (v : value) : res (option sj) :=
  match v with
  | VObj _ => do s <- to_serde_json_t v; Ok (Some s)
  | _ => Ok None
  end.

Fixpoint serde_to_value (s : sj) : value :=
  match s with
  | SNull => VNull
  | SBool b => VBool b
  | SStr x => VStr x
  | SNum (SPos n) => VNum (NUInt n)
  | SNum (SNeg z) => VNum (NInt z)
  | SNum (SFloat b) => VNum (NFloat b)
  | SArr l => VArr (map serde_to_value l)
  | SObj o => VObj (fold_left (fun acc kv => assoc_insert (fst kv) (serde_to_value (snd kv)) acc) o [])
  end.
